"""Property table: which pipeline decides which property."""
from . import verifyfam


def _vf(prop, tier):
    code, _, _ = verifyfam.run(prop, tier)
    return code


TABLE = {}
for p in ("C01", "C02", "C03", "C04", "C05", "C06", "C07", "C11", "C12"):
    TABLE[p] = dict(run=_vf, replay=verifyfam.replay)
