"""Property table: which pipeline decides which property."""
from . import verifyfam


def _vf(prop, tier):
    code, _, _ = verifyfam.run(prop, tier)
    return code


TABLE = {}
for p in ("C01", "C02", "C03", "C04", "C05", "C06", "C07", "C11", "C12"):
    TABLE[p] = dict(run=_vf, replay=verifyfam.replay)


# ------------------------------------------------------------------------------------------
from . import smallfam  # noqa: E402


def _key_generic(call, evs):
    import json
    return json.dumps(call.get("input"), sort_keys=True, separators=(",", ":")).replace(" ", "")


C15_CFG = """SPECIFICATION Spec
INVARIANTS TypeOK DataOnlyWhenDeviceGood ErrorOtherwise NoQuoteAfterFailedReport ProtocolOrder ProviderVerbatim FallbackTriesDevice ExportCase
CHECK_DEADLOCK FALSE
"""


ATTEST_CFG = "SPECIFICATION Spec\nINVARIANTS TypeOK NothingCreatedOnUsageError CreatedOnlyForFile ExportCase\nCHECK_DEADLOCK FALSE\n"


EXTEND_CFG = "SPECIFICATION Spec\nINVARIANTS TypeOK QuietSaysNothingOfItsOwn FailureIsSaid NoSuccessWithoutTsm ExportCase\nCHECK_DEADLOCK FALSE\n"


def _tool_note(prop, tier, name, pkg, cfg):
    """spec/AttestTool.tla, spec/ExtendTool.tla: the guest-side command lines around the client and rtmr calls. Not among the listed
    properties: a divergence is reported as a NOTE and recorded in the evidence; nothing that happens here changes the verdict or the exit
    status of the check it runs in."""
    try:
        wd = C.scratch("verif-%s-" % name.lower())
        binary = C.build_harness()
        tool = _os.path.join(C.BUILD, name.lower())
        p = _sp.run(["go", "build", "-buildvcs=false", "-o", tool, "./" + pkg], cwd=C.REPO, env=C.GOENV, capture_output=True, text=True)
        if p.returncode != 0:
            raise C.Infra("%s does not build: %s" % (pkg, (p.stdout + p.stderr)[-300:]))
        r = C.run_tlc(name + "_MC", cfg, workers=1, timeout=600, want_cases=True, heap="2g")
        C.tlc_must_pass(r, name + " model check")
        cases = r.cases
        for i, c in enumerate(cases):
            c["id"] = i + 1
        cp = _os.path.join(wd, "cases.jsonl")
        with open(cp, "w") as f:
            for c in cases:
                f.write(_json.dumps(c) + "\n")
        trace = _os.path.join(wd, "trace.ndjson")
        summ = C.run_harness(binary, name.lower(), cp, trace, _os.path.join(wd, "s.json"), tier, extra=["-arg", tool])
        out = dict(states=r.distinct, cases=len(cases), runs=summ["runs"], counts=summ["counts"])
        if summ.get("notes"):
            out["notes"] = summ["notes"]
        if not summ["runs"]:
            C.log("NOTE [%s] %s: %s" % (prop, name, "; ".join(summ.get("notes") or ["no runs"])))
            out["conforms"] = None
            return out
        vr = smallfam.validate(name + "_Trace", "TSpec", trace, "", wd)
        out["conforms"] = bool(vr.ok)
        if vr.ok:
            C.log("[%s] %s (%s): %d states, %d command lines on the real binary, all conform" % (prop, name, pkg, r.distinct, len(cases)))
        elif vr.postcondition_false:
            idx = smallfam.unconsumed_index(vr)
            evs, j, k = smallfam.call_block(trace, idx)
            out["first_divergence"] = evs
            C.log("NOTE [%s] model drift (not a property verdict): %s diverges from %s at %s" % (prop, name, pkg, _json.dumps(evs)[:400]))
        else:
            raise C.Infra("trace validation failed: " + vr.out[-600:])
        return out
    except Exception as e:  # noqa: BLE001 -- a side part: never the verdict, never the exit status
        C.log("NOTE [%s] %s part not completed (not a property verdict): %s" % (prop, name, str(e)[:400]))
        return dict(conforms=None, not_completed=str(e)[:400])


def _attest_note(prop, tier):
    return _tool_note(prop, tier, "AttestTool", "tools/attest", ATTEST_CFG)


def _c15(prop, tier):
    code, _, _ = smallfam.run(prop, tier, mc_module="GuestClient_MC", mc_cfg=C15_CFG, driver="client", trace_module="GuestClient_Trace",
                              key_fn=_key_generic,
                              # two-call histories first: they carry their own past, so a rejection among them reproduces in isolation
                              case_fn=lambda cases, t: sorted(cases, key=lambda c: c.get("prior") != "good"),
                              required_actions=("Start", "SendReport", "SendQuote", "ReturnData", "ReturnErr", "AskSupported", "ProviderQuote", "Fallback"),
                              assumptions=["the scripted client.Device / client.QuoteProvider stand for the kernel device and configfs-tsm",
                                           "ioctl numbers are re-derived from the Linux _IOWR definition", "inotify reports the fall-back's open of the configured device path"],
                              extra_cov=lambda summ: {"guest_tool_specification_AttestTool": _attest_note(prop, tier)})
    return code


TABLE["C15"] = dict(run=_c15, replay=lambda p, path: smallfam.replay(p, path, driver="client", trace_module="GuestClient_Trace"))


# ------------------------------------------------------------------------------------------
RTMR_INV = "TypeOK" and "RefusedWritesNothing OneEntryPerIndex ExactlyOneExtend RegistersAreChains NothingElseBound FaultedExtendsNothing ExportCase"


def _rtmr_cfg(tier):
    if tier == "thorough":
        consts = ("  Indices <- IndicesThorough\n  DigestLens = {47, 48, 49}\n  Hashes = {\"sha384\", \"sha256\", \"sha3_384\"}\n  MaxCalls = 3\n"
                  "  InitStates = {\"empty\", \"unrelated\", \"unbound\", \"bound0\", \"two\"}\n")
    else:
        consts = ("  Indices <- IndicesQuick\n  DigestLens = {0, 47, 48, 49, 64}\n  Hashes = {\"sha384\", \"sha256\", \"sha3_384\", \"zero\"}\n  MaxCalls = 2\n"
                  "  InitStates = {\"empty\", \"unrelated\", \"unbound\", \"bound0\", \"two\"}\n")
    return "CONSTANTS\n" + consts + "SPECIFICATION Spec\nINVARIANTS " + RTMR_INV + "\nCHECK_DEADLOCK FALSE\n"


RTMR_TRACE_CONSTS = ("  Indices = {0}\n  DigestLens = {48}\n  Hashes = {\"sha384\"}\n  MaxCalls = 1000\n  InitStates = {\"empty\"}\n")


def _c17_cases(cases, tier):
    # every value of crypto.Hash (h0..h31: registered or not, linked in or not) once on its own and once after an accepted request
    ok = dict(kind="log", index=1, dlen=48, hash="sha384", log="nonempty")
    for n in range(32):
        if n == 6:      # crypto.SHA384 itself
            continue
        r = dict(kind="log", index=2, dlen=48, hash="h%d" % n, log="nonempty")
        cases.append(dict(init="empty", hist=[r]))
        cases.append(dict(init="unrelated", hist=[ok, r]))
        cases.append(dict(init="empty", hist=[r, ok]))
    # indices beyond 32 bits (TLC's integers are 32-bit: 1000000 + x stands for 2^32 + x, 2000000 + x for 2^62 + x; the driver translates):
    # outside 0-3 although their low 32 bits are a valid index
    for code in (1000000, 1000001, 1000002, 1000003, 2000000, 2000003):
        for r in (dict(kind="digest", index=code, dlen=48, hash="none", log="none"), dict(kind="log", index=code, dlen=48, hash="sha384", log="nonempty")):
            cases.append(dict(init="empty", hist=[r]))
            cases.append(dict(init="two", hist=[ok, r]))
            cases.append(dict(init="unrelated", hist=[r, ok]))
    # TSM faults: each write operation failing in a call that reaches it (fresh entry needed / entry already bound), followed by a call that
    # must be unaffected; also a fault that is never reached
    log2 = dict(kind="log", index=2, dlen=48, hash="sha384", log="nonempty")
    dig2 = dict(kind="digest", index=2, dlen=48, hash="none", log="none")
    # event logs of particular lengths (block sizes of a chunked hash): the digest is that of the whole log
    for n in (1, 47, 48, 49, 127, 128, 129, 4095, 4096, 4097, 65535, 65536, 65537, 131072, 196608, 1 << 20):
        lr = dict(kind="log", index=n % 4, dlen=48, hash="sha384", log="len%d" % n)
        cases.append(dict(init="empty", hist=[lr]))
        cases.append(dict(init="bound0", hist=[lr, lr]))
    for fault in ("mkdir", "index", "digest", "digestLate"):
        for base in (log2, dig2):
            f = dict(base, fault=fault)
            for init in ("empty", "unrelated", "unbound", "two"):
                cases.append(dict(init=init, hist=[f, log2]))
                cases.append(dict(init=init, hist=[f, dict(log2, index=1)]))
                cases.append(dict(init=init, hist=[ok, f, log2]))
                cases.append(dict(init=init, hist=[f, f, dig2]))
    return cases


def _c17(prop, tier):
    code, _, _ = smallfam.run(prop, tier, mc_module="Rtmr_MC", mc_cfg=_rtmr_cfg(tier), driver="rtmr", trace_module="Rtmr_Trace",
                              trace_consts=RTMR_TRACE_CONSTS, key_fn=_key_generic, mc_workers=1, case_fn=_c17_cases,
                              required_actions=("Validate", "ReadDir", "ReadIndex", "NoneBound", "MkdirTemp", "WriteIndex", "WriteDigest"),
                              assumptions=["the in-memory configfsi.Client stands for configfs-tsm: an entry is bound by writing its index attribute and extended by writing digest",
                                           "go-configfs-tsm v0.3.2 (pinned dependency) performs the TSM sub-steps"],
                              extra_cov=lambda summ: {"guest_tool_specification_ExtendTool": _tool_note(prop, tier, "ExtendTool", "tools/extend", EXTEND_CFG)})
    return code


TABLE["C17"] = dict(run=_c17, replay=lambda p, path: smallfam.replay(p, path, driver="rtmr", trace_module="Rtmr_Trace", trace_consts=RTMR_TRACE_CONSTS))

# ------------------------------------------------------------------------------------------
# C20: a grid of (Timeout, Max) model-checking runs (time unit = UNIT ms); every exported case runs on the real getter.
import json as _json  # noqa: E402
import os as _os  # noqa: E402
import time as _time  # noqa: E402
from concurrent.futures import ThreadPoolExecutor as _TPE  # noqa: E402

from . import common as C  # noqa: E402

RETRY_SLACK_MS = 150


def _retry_mc_cfg(timeout, mx, init2, liveness):
    return ("CONSTANTS\n  Timeout = %d\n  Max = %d\n  Init2 = %d\n  DurMax = 1\n  FailsSet <- FailsAll\nSPECIFICATION FairSpec\n"
            "INVARIANTS TypeOK FirstSuccessReturned NoAttemptAfterSuccess ErrorOnlyAfterDeadline WaitsBounded WaitsScheduled GiveUpBounded ExportCase\n"
            "CONSTRAINT Bounded\n%sCHECK_DEADLOCK FALSE\n" % (timeout, mx, init2, "PROPERTY Terminates\n" if liveness else ""))


def _https_note(prop, wd, binary, tier):
    """spec/HttpsGet.tla: the transport under every download (trust.SimpleHTTPSGetter) and the shape of DefaultHTTPSGetter. Not one of the
    listed properties: a divergence is reported as a NOTE and recorded in the evidence, never as a violation of C20."""
    cfg = "SPECIFICATION Spec\nINVARIANTS TypeOK DataExactlyOnSuccess BoundedRedirects ExportCase\nCHECK_DEADLOCK FALSE\n"
    r = C.run_tlc("HttpsGet_MC", cfg, workers=1, timeout=600, want_cases=True, heap="2g")
    C.tlc_must_pass(r, "HttpsGet model check")
    cases = r.cases
    for i, c in enumerate(cases):
        c["id"] = i + 1
    sub = _os.path.join(wd, "https")
    _os.makedirs(sub, exist_ok=True)
    cp = _os.path.join(sub, "cases.jsonl")
    with open(cp, "w") as f:
        for c in cases:
            f.write(_json.dumps(c) + "\n")
    trace = _os.path.join(sub, "trace.ndjson")
    summ = C.run_harness(binary, "httpsget", cp, trace, _os.path.join(sub, "s.json"), tier)
    vr = smallfam.validate("HttpsGet_Trace", "TSpec", trace, "", sub)
    out = dict(states=r.distinct, cases=len(cases), runs=summ["runs"], counts=summ["counts"], conforms=bool(vr.ok))
    if vr.ok:
        C.log("[%s] HttpsGet (transport under the retrying getter): %d states, %d cases on the real SimpleHTTPSGetter, all conform; DefaultHTTPSGetter = Retry(2 min, 30 s) over it" % (prop, r.distinct, len(cases)))
    elif vr.postcondition_false:
        idx = smallfam.unconsumed_index(vr)
        evs, j, k = smallfam.call_block(trace, idx)
        out["first_divergence"] = evs
        C.log("NOTE [%s] model drift (not a property verdict): HttpsGet diverges from trust.SimpleHTTPSGetter at %s" % (prop, _json.dumps(evs)[:400]))
    else:
        raise C.Infra("HttpsGet trace validation failed:\n" + vr.out[-2000:])
    return out


def _c20(prop, tier):
    t0 = _time.time()
    wd = C.scratch("verif-C20-")
    binary = C.build_harness()
    # (unit ms, Timeout units, Max units, Init2 units, run on the real code)
    grid = [(40, t, m, 50, True) for t in (0, 6, 18) for m in (0, 1, 3)]
    grid += [(0, t, m, 2, False) for t in (3, 8) for m in (1, 2, 4, 16)]          # doubling-and-cap region, model only
    grid += [(1000, 5, 3, 2, True)]                                               # a cap above the initial 2 s delay: first wait min(4 s, 3 s)
    grid += [(40, 40, 1, 50, True)]                                               # dozens of failures in one call (more than a 64-bit delay could be doubled)
    if tier == "thorough":
        grid += [(1000, 6, 5, 2, True), (1000, 3, 1, 2, True), (40, 30, 2, 50, True), (40, 12, 6, 50, True)]
    states = gen = 0
    cases = []

    def mc(g):
        unit, t, m, i2, real = g
        r = C.run_tlc("Retry_MC", _retry_mc_cfg(t, m, i2, m > 0), workers=1, timeout=600, want_cases=True, heap="2g")
        C.tlc_must_pass(r, "Retry model check Timeout=%d Max=%d Init2=%d" % (t, m, i2))
        return g, r
    with _TPE(max_workers=8) as ex:
        for g, r in ex.map(mc, grid):
            states += r.distinct
            gen += r.generated
            unit, t, m, i2, real = g
            if real:
                for c in r.cases:
                    # what a success carries: every case with the usual response, and with one of the unusual ones in turn
                    shapes = ["full", ("emptyBody", "nilBody", "nilHeaders", "allEmpty")[len(cases) % 4]] if c["fails"] >= 0 else ["full"]
                    for sh in shapes:
                        cases.append(dict(timeout=t * unit, max=m * unit, fails=c["fails"], init2=2000, resp=sh))
    # one attempt that takes several delays' worth of time before it fails: the waits after it are full waits all the same
    for c in [c for c in cases if c["max"] in (40, 120) and c["timeout"] >= 700 and c["fails"] in (-1, 3) and c["resp"] == "full"]:
        cases.append(dict(c, slowFirst=3 * c["max"] + 15))
    for i, c in enumerate(cases):
        c["id"] = i + 1
    cp = _os.path.join(wd, "cases.jsonl")
    with open(cp, "w") as f:
        for c in cases:
            f.write(_json.dumps(c) + "\n")
    # unbounded parameters: the delay / first-success / deadline invariant of the retry loop is inductive for every Timeout, Max, Init2,
    # attempt duration and failure count (Apalache: Init => IndInv, IndInv /\ Next => IndInv'), not only on TLC's grid
    C.run_apalache("RetryInd", ["--cinit=ConstInit", "--init=Init", "--inv=IndInv", "--length=0"])
    C.run_apalache("RetryInd", ["--cinit=ConstInit", "--init=IndInit", "--inv=IndInv", "--length=1"])
    C.log("[C20] model Retry: %d configurations, %d states generated, %d distinct; %d cases for the real getter" % (len(grid), gen, states, len(cases)))
    trace = _os.path.join(wd, "trace.ndjson")
    summ = C.run_harness(binary, "retry", cp, trace, _os.path.join(wd, "s.json"), tier)
    C.log("[C20] harness retry: %d runs, %d events, %s" % (summ["runs"], summ["events"], summ["counts"]))
    # split per (timeout, max): constants of the validating TLC run
    groups = {}
    cur = None
    for line in open(trace):
        if '"ev":"Call"' in line:
            inp = _json.loads(line)["input"]
            cur = (inp["timeout"], inp["max"])
        groups.setdefault(cur, []).append(line)
    violations = []

    def consts(k):
        return "  Timeout = %d\n  Max = %d\n  Init2 = 2000\n  DurMax = 1\n  FailsSet = {0}\n  Slack = %d\n" % (k[0], k[1], RETRY_SLACK_MS)

    def val(k):
        p = _os.path.join(wd, "g-%d-%d.ndjson" % k)
        with open(p, "w") as f:
            f.writelines(groups[k])
        return k, p, smallfam.validate("Retry_Trace", "TSpec", p, consts(k), wd)
    with _TPE(max_workers=8) as ex:
        results = list(ex.map(val, sorted(groups)))
    for k, p, vr in results:
        cur_p, cur = p, vr
        while not cur.ok and len(violations) < C.MAX_VIOLATIONS:
            if not cur.postcondition_false:
                raise C.Infra("trace validation failed on %s:\n%s" % (cur_p, cur.out[-3000:]))
            idx = smallfam.unconsumed_index(cur)
            evs, j, kk = smallfam.call_block(cur_p, idx)
            call = evs[0]
            key = "timeout=%d,max=%d,fails=%d,resp=%s" % (call["input"]["timeout"], call["input"]["max"], call["input"]["fails"], call["input"].get("resp", "full"))
            rp = C.write_replay(prop, str(call["case"]), dict(property=prop, seed=C.seed(), tier=tier, case=call["input"], observed=evs, key=key))
            # timing: reproduce twice; an alarm that does not reproduce is an infrastructure failure (exit 2)
            if not smallfam.reproduce(prop, rp, binary, wd, "retry", "Retry_Trace", "TSpec", consts(k), tier):
                raise C.Infra("rejected timing trace did not reproduce in isolation (scheduler noise?): %s" % rp)
            violations.append(dict(key=key, replay=rp, text="rejected: %s" % _json.dumps(evs[min(idx - 1 - j, len(evs) - 1)])[:200]))
            rest = open(cur_p).read().splitlines(keepends=True)[kk:]
            if not rest:
                break
            cur_p = _os.path.join(wd, "rest-%d-%d-%d.ndjson" % (k[0], k[1], len(violations)))
            with open(cur_p, "w") as f:
                f.writelines(rest)
            cur = smallfam.validate("Retry_Trace", "TSpec", cur_p, consts(k), wd)
    # the same bound through the command line: tools/check wraps its network getter in a RetryHTTPSGetter built from -timeout / -max_retry_delay
    tool = _build_check_tool()
    base = dict(field="mr_td", cfg="absent", flag="absent", shape="full", fmt="textproto", quote="valid", inform="bin", roots="flagGood", net="off", crl="off",
                present="plain", cfgAny="absent", retry="short")
    tcases = [dict(base, net=n, retry=r, id=9000 + i) for i, (n, r) in enumerate([("unreachable", "short"), ("serverError", "short"), ("unreachable", "zeroDelay"), ("unreachable", "negativeDelay"),
                                                                              ("unreachable", "zeroTimeout"), ("honest", "short")])]
    tsub = _os.path.join(wd, "tool")
    _os.makedirs(tsub, exist_ok=True)
    tcp = _os.path.join(tsub, "cases.jsonl")
    with open(tcp, "w") as f:
        for c in tcases:
            f.write(_json.dumps(c) + "\n")
    ttrace = _os.path.join(tsub, "trace.ndjson")
    C.run_harness(binary, "checktool", tcp, ttrace, _os.path.join(tsub, "s.json"), tier, extra=["-arg", tool])
    tv = smallfam.validate("CheckTool_Trace", "TSpec", ttrace, "  Budget = 1\n", tsub)
    if not tv.ok:
        if not tv.postcondition_false:
            raise C.Infra("CheckTool trace validation failed in C20:\n" + tv.out[-2000:])
        idx = smallfam.unconsumed_index(tv)
        evs, j, kk = smallfam.call_block(ttrace, idx)
        call = evs[0]
        key = "tool:net=%s,retry=%s" % (call["input"]["net"], call["input"]["retry"])
        rp = C.write_replay(prop, "tool-%s" % call["case"], dict(property=prop, seed=C.seed(), tier=tier, case=call["input"], observed=evs, key=key, tool=True))
        if not smallfam.reproduce(prop, rp, binary, tsub, "checktool", "CheckTool_Trace", "TSpec", "  Budget = 1\n", tier, harness_extra=["-arg", tool]):
            raise C.Infra("rejected tool run did not reproduce in isolation: %s" % rp)
        violations.append(dict(key=key, replay=rp, text="rejected: %s" % _json.dumps(evs[min(idx - 1 - j, len(evs) - 1)])[:200]))
    code = C.settle(prop, violations)
    https = _https_note(prop, wd, binary, tier)
    cov = {"states": states, "transitions": gen, "traces_validated_against_impl": summ["runs"], "events_validated": summ["events"], "transport_specification_HttpsGet": https,
           "model_configurations": ["unit=%sms Timeout=%d Max=%d Init2=%d real=%s" % g for g in grid],
           "slack_ms": RETRY_SLACK_MS, "apalache_inductive_invariant": "RetryInd.IndInv holds initially and is preserved by every step for all parameter values (apalache-mc, lengths 0 and 1)",
           "counts": summ["counts"], "samples": summ["samples"][:4], "exhaustive": True,
           "rule": "TLC exhausts Retry (safety + termination under fairness) for every grid point; each (timeout, max, failure count) case runs on the real RetryHTTPSGetter with a scripted getter; TLC validates the recorded attempt times"}
    C.write_evidence(prop, tier, "model_checking", cov, _time.time() - t0, len(violations),
                     ["the host's monotonic clock; upper timing bounds carry %d ms slack, lower bounds are strict" % RETRY_SLACK_MS,
                      "MaxRetryDelay = 0 is read as 'retry at once until the deadline' (DESIGN.md §6)"])
    return code


def _c20_replay(prop, path):
    rp = _json.load(open(path))
    if rp.get("tool"):
        return smallfam.replay(prop, path, driver="checktool", trace_module="CheckTool_Trace", trace_consts="  Budget = 1\n", harness_extra=["-arg", _build_check_tool()])
    k = (rp["case"]["timeout"], rp["case"]["max"])
    consts = "  Timeout = %d\n  Max = %d\n  Init2 = 2000\n  DurMax = 1\n  FailsSet = {0}\n  Slack = %d\n" % (k[0], k[1], RETRY_SLACK_MS)
    return smallfam.replay(prop, path, driver="retry", trace_module="Retry_Trace", trace_consts=consts)


TABLE["C20"] = dict(run=_c20, replay=_c20_replay)

# ------------------------------------------------------------------------------------------
POLICY_INV = "TypeOK ExactlyConforming RefusesMalformed MeansTheSame ExportCase"
POLICY_ACTIONS = ("Convert", "QuoteShape", "ExactBytes", "Rtmrs", "AnyMrTd", "MinTee", "MinQe", "MinPce", "Xfam", "TdAttributes", "Finish")


def _policy_cfg(tier, focus):
    f = "{" + ", ".join('"%s"' % d for d in focus) + "}"
    return "CONSTANTS\n  K = 1\n  Focus = %s\nSPECIFICATION Spec\nINVARIANTS %s\nCHECK_DEADLOCK FALSE\n" % (f, POLICY_INV)


POLICY_FOCUS_QUICK = ["mrTd", "anyMrTd", "rtmrs", "minTee", "minQe", "minPce", "reportData", "mrOwner", "mrOwnerConfig"]
POLICY_FOCUS_THOROUGH = ["qeVendorId", "mrSeam", "tdAttributes", "xfam", "mrTd", "mrConfigId", "mrOwner", "mrOwnerConfig", "reportData",
                         "rtmrs", "anyMrTd", "minQe", "minPce", "minTee", "xfamBits", "tdAttrBits"]


def _policy(prop, tier, mode):
    focus = POLICY_FOCUS_THOROUGH if tier == "thorough" else POLICY_FOCUS_QUICK
    code, _, _ = smallfam.run(prop, tier, mc_module="Policy_MC", mc_cfg=_policy_cfg(tier, focus), driver="policy", trace_module="Policy_Trace",
                              trace_consts="  K = 0\n  Focus = {}\n", key_fn=_key_generic,
                              case_fn=lambda cases, t: [c for c in cases if c["mode"].startswith(mode)],
                              required_actions=POLICY_ACTIONS,
                              assumptions=["quotes are structurally valid generated quotes with seeded random contents; expectations are derived from the quote by the stated rule of each abstract state",
                                           "the fixed-0 / fixed-1 bit sets of XFAM and TD_ATTRIBUTES are the repository's constants, written as bit sets in spec/Policy.tla"])
    return code


# C08 speaks of every policy, however it reaches validate.TdxQuote: as an Options value or as a policy message converted by PolicyToOptions
TABLE["C08"] = dict(run=lambda p, t: _policy(p, t, ""),
                    replay=lambda p, path: smallfam.replay(p, path, driver="policy", trace_module="Policy_Trace", trace_consts="  K = 0\n  Focus = {}\n"))
TABLE["C14"] = dict(run=lambda p, t: _policy(p, t, "policy"),
                    replay=lambda p, path: smallfam.replay(p, path, driver="policy", trace_module="Policy_Trace", trace_consts="  K = 0\n  Focus = {}\n"))

# ------------------------------------------------------------------------------------------
def _pckext_cfg(tier):
    if tier == "thorough":
        consts = ('  FaultTcbOrders = {"canon", "swap12", "swap1x16", "swap16x17", "swap17x18", "rot1", "rot9", "rev", "random"}\n'
                  '  FaultExtras = {"none", "front", "back", "both"}\n  FaultTops = "all"\n')
    else:
        consts = '  FaultTcbOrders = {"canon", "rev", "random"}\n  FaultExtras = {"back"}\n  FaultTops = "few"\n'
    return "CONSTANTS\n" + consts + "SPECIFICATION Spec\nINVARIANTS TypeOK ExactOrError OrderBlind ExportCase\nCHECK_DEADLOCK FALSE\n"


PCKEXT_TRACE_CONSTS = '  FaultTcbOrders = {"canon"}\n  FaultExtras = {"back"}\n  FaultTops = "few"\n'


def _key_pckext(call, evs):
    c = call["input"]
    if c["struct"] != "none":
        return "struct=" + c["struct"]
    if c["dev"] == "none":
        return "order:top=%s,extras=%s,tcb=%s" % ("".join(k[0] for k in c["top"]), c["extras"], c["tcbOrder"])
    return "%s:%s:%s" % (c["dev"], c["cls"] if c["dev"] == "class" else "-", c["target"])


def _c13(prop, tier):
    code, _, _ = smallfam.run(prop, tier, mc_module="PckExt_MC", mc_cfg=_pckext_cfg(tier), driver="pckext", trace_module="PckExt_Trace",
                              trace_consts=PCKEXT_TRACE_CONSTS, key_fn=_key_pckext,
                              required_actions=("Outer", "TopElem", "TcbElem", "Finish"),
                              assumptions=["the SGX extension is hand-encoded DER (harness/gen/der.go) inside a real X.509 certificate with exactly six extensions",
                                           "values are compared field by field with the ones encoded"])
    return code


TABLE["C13"] = dict(run=_c13, replay=lambda p, path: smallfam.replay(p, path, driver="pckext", trace_module="PckExt_Trace", trace_consts=PCKEXT_TRACE_CONSTS))

# ------------------------------------------------------------------------------------------
import re as _re  # noqa: E402


def _wire_cfg(tier):
    b = 2
    return ("CONSTANTS\n  AuthLens = {0, 2}\n  ChainLen = 7\n  ExtraLens = {0, 3}\n  Budget = %d\n"
            "SPECIFICATION Spec\nINVARIANTS TypeOK AcceptIffLayout MachineIsFunction ExportCase\nCHECK_DEADLOCK FALSE\n" % b)


WIRE_TRACE_CONSTS = "  AuthLens = {0}\n  ChainLen = 7\n  ExtraLens = {0}\n  Budget = 1\n"


def _layout_crosscheck(binary):
    """The layout table of spec/QuoteWire.tla and the harness's own table must be the same table."""
    wd = C.scratch("verif-layout-")
    r = C.run_tlc("QuoteWire_MC", "CONSTANTS\n  AuthLens = {0}\n  ChainLen = 7\n  ExtraLens = {0}\n  Budget = 1\nSPECIFICATION Spec\nCHECK_DEADLOCK FALSE\n", workers=1, timeout=300)
    m = _re.search(r'<<"LAYOUT", (".*")>>', r.out)
    if not m:
        raise C.Infra("layout table not printed by TLC")
    spec_layout = _json.loads(_json.loads(m.group(1)))
    out = _os.path.join(wd, "layout.ndjson")
    cp = _os.path.join(wd, "none.jsonl")
    open(cp, "w").close()
    C.run_harness(binary, "layout", cp, out, _os.path.join(wd, "s.json"), "quick")
    go_layout = _json.loads(open(out).readline())["layout"]
    if spec_layout != go_layout:
        raise C.Infra("layout table of spec/QuoteWire.tla differs from harness/gen/quote.go")
    return len(spec_layout)


def _key_wire(call, evs):
    f = call.get("facts") or call["input"]["f"]
    return "len=%s,ver=%s,kt=%s,tee=%s,sd=%s,ct=%s,cs=%s,auth=%s,pt=%s,ps=%s|a=%s,e=%s,chain=%s" % (
        f["len"], f["version"], f["keyType"], f["teeType"], f["sd"], f["certType"], f["certSize"], f["auth"], f["pckType"], f["pckSize"],
        call["input"]["a"], call["input"]["e"], call["input"]["chain"])


def _wire_run(prop, tier, part=True):
    binary = C.build_harness()
    nfields = _layout_crosscheck(binary)
    return smallfam.run(prop, tier, part=part, mc_module="QuoteWire_MC", mc_cfg=_wire_cfg(tier), driver="wire", trace_module="QuoteWire_Trace",
                              trace_consts=WIRE_TRACE_CONSTS, key_fn=_key_wire, required_actions=("Guard", "Accept"),
                              extra_cov={"layout_fields_crosschecked": nfields},
                              assumptions=["the layout table is an independent transcription of Intel's v4 quote layout (bytes 8-11 of the header follow the repository's naming)",
                                           "field contents are seeded random fillings, pairwise distinct with overwhelming probability",
                                           "gen.Decode is the reference reader for field contents; acceptance is decided by the TLA+ parser machine"])


def _c09(prop, tier):
    t0 = _time.time()
    _, v1, c1 = _wire_run(prop, tier)
    _, v2, c2 = _msg_run(prop, tier, "C09")
    return smallfam.combine(prop, tier, [("wire", v1, c1), ("messages", v2, c2)], t0)


TABLE["C09"] = dict(run=_c09, replay=lambda p, path: smallfam.replay(p, path, driver="wire", trace_module="QuoteWire_Trace", trace_consts=WIRE_TRACE_CONSTS))

# ------------------------------------------------------------------------------------------
def _msg_cfg(tier):
    pw = '{"absent", "rtmrs", "size", "extra", "type", "wide"}' if tier == "thorough" else '{"size", "extra", "rtmrs"}'
    return "CONSTANTS\n  PairWith = %s\nSPECIFICATION Spec\nINVARIANTS TypeOK SerialIffValid RoundTripImpliesValid ExportCase\nCHECK_DEADLOCK FALSE\n" % pw


def _key_msg(call, evs):
    i = call["input"]
    return "%s:%s:%s+%s:%s:%s" % (i["d1"]["kind"], i["d1"]["what"], i["d1"]["how"], i["d2"]["kind"], i["d2"]["what"], i["d2"]["how"])


def _msg_run(prop, tier, judge, part=True):
    return smallfam.run(prop, tier, part=part, mc_module="QuoteMsg_MC", mc_cfg=_msg_cfg(tier), driver="msg", trace_module="QuoteMsg_Trace",
                        trace_consts='  PairWith = {}\n  Prop = "%s"\n' % judge, key_fn=_key_msg, required_actions=("CheckQuote", "Serialise", "ParseBack"),
                        assumptions=["messages are built field by field from a generated, correctly signed quote and then deviated structurally"])


# ------------------------------------------------------------------------------------------
def _pcsresp_cfg(tier):
    return "CONSTANTS\n  Pairs = %s\nSPECIFICATION Spec\nINVARIANTS TypeOK ExportCase\nCHECK_DEADLOCK FALSE\n" % ("TRUE" if tier == "thorough" else "FALSE")


def _key_resp(call, evs):
    i = call["input"]
    return "%s.%s=%s+%s.%s=%s" % (i["d1"]["ep"], i["d1"]["part"], i["d1"]["shape"], i["d2"]["ep"], i["d2"]["part"], i["d2"]["shape"])


def _c10(prop, tier):
    t0 = _time.time()
    binary = C.build_harness()
    _layout_crosscheck(binary)
    nc = dict(trace_module="NoCrash_Trace", trace_consts="", part=True)
    _, v1, c1 = smallfam.run(prop, tier, mc_module="QuoteWire_MC", mc_cfg=_wire_cfg(tier), driver="wire", key_fn=_key_wire, required_actions=("Guard", "Accept"),
                             assumptions=["byte strings: every wire case of QuoteWire plus truncation and mutation sweeps, through abi.QuoteToProto, verify.RawTdxQuote, validate.RawTdxQuote"], **nc)
    _, v2, c2 = _msg_run(prop, tier, "C10")
    _, v3, c3 = smallfam.run(prop, tier, mc_module="PcsResponse_MC", mc_cfg=_pcsresp_cfg(tier), driver="pcsresp", key_fn=_key_resp, required_actions=("Fetch", "Finish"),
                             assumptions=["endpoint responses are drawn from the grammar of spec/PcsResponse.tla; altered members are re-signed by the honest signer so that the odd values are used"], **nc)
    _, v4, c4 = smallfam.run(prop, tier, mc_module="PckExt_MC", mc_cfg=_pckext_cfg(tier), driver="pckext", key_fn=_key_pckext, required_actions=("Outer", "TopElem", "TcbElem", "Finish"),
                             assumptions=["SGX extension DER: every case of PckExt (wrong types, lengths, trailing bytes, truncation, missing elements)"], **nc)
    # what a PCS endpoint may send over the wire reaches the library through its own network getter first
    _, v5, c5 = smallfam.run(prop, tier, mc_module="HttpsGet_MC", mc_cfg="SPECIFICATION Spec\nINVARIANTS TypeOK DataExactlyOnSuccess BoundedRedirects ExportCase\nCHECK_DEADLOCK FALSE\n",
                             driver="httpsget", key_fn=lambda call, evs: "https:" + ",".join("%s=%s" % (k, call["input"][k]) for k in sorted(call["input"]) if k != "id"),
                             required_actions=("Connect", "Handshake", "Exchange", "ReadBody"),
                             assumptions=["HTTP responses of every shape of spec/HttpsGet.tla served by TLS servers inside the harness to trust.SimpleHTTPSGetter (HTTPS_PROXY, SSL_CERT_FILE)"], **nc)
    return smallfam.combine(prop, tier, [("bytes", v1, c1), ("messages", v2, c2), ("responses", v3, c3), ("sgx-extension", v4, c4), ("transport", v5, c5)], t0)


def _c10_replay(prop, path):
    rp = _json.load(open(path))
    case = rp.get("case") or {}
    if "transport" in case:
        drv = "httpsget"
    elif "f" in case:
        drv = "wire"
    elif "top" in case:
        drv = "pckext"
    elif "d1" in case and "ep" in case["d1"]:
        drv = "pcsresp"
    else:
        drv = "msg"
    if drv == "msg":
        return smallfam.replay(prop, path, driver="msg", trace_module="QuoteMsg_Trace", trace_consts='  PairWith = {}\n  Prop = "C10"\n')
    return smallfam.replay(prop, path, driver=drv, trace_module="NoCrash_Trace", trace_consts="")


def _c09_replay(prop, path):
    rp = _json.load(open(path))
    if "f" in (rp.get("case") or {}):
        return smallfam.replay(prop, path, driver="wire", trace_module="QuoteWire_Trace", trace_consts=WIRE_TRACE_CONSTS)
    return smallfam.replay(prop, path, driver="msg", trace_module="QuoteMsg_Trace", trace_consts='  PairWith = {}\n  Prop = "C09"\n')


TABLE["C09"] = dict(run=_c09, replay=_c09_replay)
TABLE["C10"] = dict(run=_c10, replay=_c10_replay)


# ------------------------------------------------------------------------------------------
HIST_DIMS_QUICK = ["mut", "tcbAlter", "qeAlter", "qsig", "bind", "qeSigner", "leafRole", "leafPki", "pool", "tcbSigner", "qeSignerDoc", "tcbExtra", "tcbContent", "modBranch", "qeContent",
                   "pckCrlRev", "rootCrlRev", "pckCrlSigner", "time"]


def _hist_cfg(tier, dims=None, pairs=True):
    return _hist_cfg0(tier, dims).replace("HistPairs <- HistPairsRot", "HistPairs <- HistPairsRot" if pairs else "HistPairs <- HistPairsNone")


def _hist_cfg0(tier, dims=None):
    if dims is None and tier == "thorough":
        return ('CONSTANTS\n  K = 0\n  Focus = {}\n  OptSet = "levels"\n  NowVals = {"set"}\n  HistDims <- DimNames\n  HistQuick = FALSE\n  HistPairs <- HistPairsRot\n'
                "SPECIFICATION HSpec\nINVARIANTS StoreIsCurrent HistoryFree ExportCase\nCHECK_DEADLOCK FALSE\n")
    dims = "{" + ", ".join('"%s"' % d for d in (dims or HIST_DIMS_QUICK)) + "}"
    return ('CONSTANTS\n  K = 0\n  Focus = {}\n  OptSet = "levels"\n  NowVals = {"set"}\n  HistDims = %s\n  HistQuick = %s\n  HistPairs <- HistPairsRot\n'
            "SPECIFICATION HSpec\nINVARIANTS StoreIsCurrent HistoryFree ExportCase\nCHECK_DEADLOCK FALSE\n" % (dims, "FALSE" if tier == "thorough" else "TRUE"))


HIST_TRACE_CONSTS = '  K = 0\n  Focus = {}\n  OptSet = "levels"\n  NowVals = {"set"}\n  Prop = "HIST"\n'


def _key_hist(call, evs):
    i = call.get("input") or {}
    f = i.get("fault", {})
    b = verifyfam.baseline()
    dev = ",".join("%s=%s" % (d, f[d]) for d in sorted(f) if b.get(d) != f[d]) or "baseline"
    if i.get("timed"):
        return "history:wall-clock-time-set-reused-after-expiry%s|shared=%s" % ("-first-call-fails-fetching" if i.get("firstFails") else "", int(bool(i.get("shared"))))
    steps = {"levels": ">levels>", "addRoot": ">addRoot>"}.get(i.get("mid"), ">").join("%s@%d%d%s" % (s["wid"], int(s["gc"]), int(s["cr"]), "r" if s.get("entry") == "raw" else "") for s in i.get("hist", []))
    return "history:%s|%s|shared=%s" % (dev, steps, int(bool(i.get("shared"))))


def _hist_quick(cases):
    """Quick tier: of TLC's histories keep every message/message history (the reporting call in between only before a call that asks for
    revocation checking) and, of those that mix the two entry points, the ones that keep the option level; thorough keeps all."""
    out = []
    for c in cases:
        a, b = c["hist"]
        if a.get("entry", "msg") == "msg" and b.get("entry", "msg") == "msg":
            if c.get("mid", "none") in ("none", "addRoot") or b["cr"]:
                out.append(c)
        elif c.get("mid", "none") == "none" and a["gc"] == b["gc"] and a["cr"] == b["cr"]:
            out.append(c)
    return out


def _hist_three(cases):
    """Three-call histories beyond TLC's list (like the timed ones): a genuine call, then a quote of the same platform whose embedded chain
    is another PKI's (same names, same leaf key: the QE report and its signature are the genuine ones) in a call that fails while
    fetching collateral, then that quote again without collateral -- whatever the second call left half-done must not help the third."""
    b = verifyfam.baseline()
    w = dict(b, leafPki="B", interPki="B", rootPki="B", tcbHdr="missing")
    other = dict(b, modBranch="modOk", sharedSigner="shared")
    out = []
    for e1, e2 in (("raw", "msg"), ("msg", "raw"), ("msg", "msg"), ("raw", "raw")):
        for shared in (True, False):
            out.append(dict(fault=w, shared=shared, mid="none", worlds=dict(T=b, W=w, B=other),
                            hist=[dict(wid="T", gc=False, cr=False, entry=e1), dict(wid="W", gc=True, cr=False, entry=e2), dict(wid="W", gc=False, cr=False, entry=e2)]))
    return cases + out


def _hist_cases(cases, tier):
    if tier != "thorough":
        cases = _hist_quick(cases)
    # one timed history beyond TLC's list: wall-clock time set, the leaf expires between the two calls (shared and fresh Options)
    cases = _hist_three(cases)
    # (and the same with a first call that fails while fetching collateral: nothing of it may stay behind either)
    return cases + [dict(timed=True, shared=True, fault={}, hist=[]), dict(timed=True, shared=False, fault={}, hist=[]),
                    dict(timed=True, shared=True, firstFails=True, fault={}, hist=[]), dict(timed=True, shared=False, firstFails=True, fault={}, hist=[])]


def _hist_run(prop, tier, dims=None):
    return smallfam.run(prop, tier, part=True, case_fn=_hist_cases if (dims is None or prop == "C06") else (lambda cases, t: (cases if t == "thorough" else _hist_quick(cases)) if prop != "C01" else _hist_three(cases if t == "thorough" else _hist_quick(cases))), mc_module="VerifyHistory_MC", mc_cfg=_hist_cfg(tier, dims, pairs=prop in ("C02", "C12")), driver="history", trace_module="TdxVerify_Judge", trace_spec="JSpec",
                        trace_consts=HIST_TRACE_CONSTS, key_fn=_key_hist, required_actions=("Call",), max_events=24000,
                        assumptions=["worlds of one history share a seed: named keys, certificates and deterministic signatures coincide byte for byte, so a cache or left-over state keyed on shared material would be hit"],
                        rule="every history (first call on the honest twin or on another honest platform, second call on any of the three worlds, all option levels, shared or fresh Options) is run in one process; every call is judged by the single-call properties")


# C01..C07 are statements about every call, not about the first call of a process: each is also decided over two-call
# histories whose faulty world deviates in that property's own dimensions.
HIST_FOCUS_EXTRA = {"C01": ["mut", "msgWide"]}


ISOLATION_CFG = "CONSTANTS\n  Calls = {1, 2, 3}\n  Shared = FALSE\nSPECIFICATION Spec\nINVARIANTS TypeOK VerdictIsOwn ExportCase\nCHECK_DEADLOCK FALSE\n"


def _isolation_run(prop, tier):
    return smallfam.run(prop, tier, part=True, mc_module="VerifyIsolation_MC", mc_cfg=ISOLATION_CFG, driver="isolation", trace_module="VerifyIsolation_Trace", trace_consts="",
                        key_fn=lambda call, evs: "concurrent:tamper=%s" % call["input"]["tamper"], required_actions=("Serialise", "Hash", "Compare"),
                        assumptions=["sixteen goroutines per scenario, each with inputs and options of its own; a rejected scenario must reproduce when run again on its own (it is concurrent in itself)"],
                        rule="TLC explores every interleaving of three calls with private buffers (and refutes the shared-buffer counter-model); per altered region, goroutines verify genuine and altered quotes at the same time and every verdict must be the verdict of the goroutine's own input")


def _vf_hist(prop, tier):
    t0 = _time.time()
    parts = []
    if prop == "C01":       # "no bit ... can change without the quote being rejected" also when other verifications run at the same time
        _, v3, c3 = _isolation_run(prop, tier)
        parts.append(("concurrent", v3, c3))
    try:
        _, v1, c1 = verifyfam.run(prop, tier, part=True)
        _, v2, c2 = _hist_run(prop, tier, dims=verifyfam.CFG[prop]["focus"] + HIST_FOCUS_EXTRA.get(prop, []))
        parts = [("worlds", v1, c1), ("histories", v2, c2)] + parts
    except C.Infra as e:
        # the harness runs its cases on several goroutines: when calls that overlap in time disturb each other (a reproduced violation of
        # the concurrent part), rejections elsewhere need not reproduce one at a time; they are then explained, not an infrastructure failure
        if not (parts and parts[0][1]):
            raise
        C.log("NOTE [%s] %s -- explained by the reproduced violation of the concurrent part" % (prop, str(e).splitlines()[0]))
    return smallfam.combine(prop, tier, parts, t0)


def _c12(prop, tier):
    t0 = _time.time()
    _, v1, c1 = verifyfam.run(prop, tier, part=True)
    _, v2, c2 = _hist_run(prop, tier)
    return smallfam.combine(prop, tier, [("options-and-gating", v1, c1), ("histories", v2, c2)], t0)


def _c12_replay(prop, path):
    rp = _json.load(open(path))
    if "tamper" in (rp.get("case") or {}):
        return smallfam.replay(prop, path, driver="isolation", trace_module="VerifyIsolation_Trace", trace_consts="")
    if "hist" in (rp.get("case") or {}):
        return smallfam.replay(prop, path, driver="history", trace_module="TdxVerify_Judge", trace_spec="JSpec", trace_consts=HIST_TRACE_CONSTS)
    return verifyfam.replay(prop, path)


TABLE["C12"] = dict(run=_c12, replay=_c12_replay)
for _p in ("C01", "C02", "C03", "C05", "C06"):
    TABLE[_p] = dict(run=_vf_hist, replay=_c12_replay)

# ------------------------------------------------------------------------------------------
def _tcbl_cfg(tier):
    if tier == "thorough":
        c = '  MaxPlat = 2\n  PlatStatuses = {"UpToDate", "OutOfDate"}\n  MaxQe = 3\n'
    else:
        c = '  MaxPlat = 1\n  PlatStatuses = {"UpToDate", "OutOfDate"}\n  MaxQe = 2\n'
    return "CONSTANTS\n" + c + "SPECIFICATION Spec\nINVARIANTS TypeOK LoopIsFirstMatch OnlyUpToDatePasses ExportCase\nCHECK_DEADLOCK FALSE\n"


TCBL_TRACE_CONSTS = '  MaxPlat = 1\n  PlatStatuses = {"UpToDate"}\n  MaxQe = 1\n'


def _key_tcbl(call, evs):
    i = call["input"]
    if i["kind"] == "qe":
        return "qe:" + ",".join("%s/%s" % (x["rel"], x["st"]) for x in i["qe"])
    return "tcb:svn1=%s:plat=%s:mod=%s[%s]" % (i["svn1"], ";".join("%s/%s/%s/%s" % (x["sgx"], x["pce"], x["tdx"], x["st"]) for x in i["plat"]),
                                              i["mod"]["id"], ",".join("%s/%s" % (x["rel"], x["st"]) for x in i["mod"]["lv"]))


def _tcbl_run(prop, tier, kind):
    def pick(cases, t):
        out = [c for c in cases if c["kind"] == kind]
        if t == "quick" and kind == "tcb" and len(out) > 12000:
            # quick: the <= 1-level slice is complete; of larger lists a seeded sample
            import random
            rnd = random.Random(C.seed())
            small = [c for c in out if len(c["plat"]) <= 1]
            big = [c for c in out if len(c["plat"]) > 1]
            out = small + rnd.sample(big, min(len(big), 4000))
        return out
    return smallfam.run(prop, tier, part=True, mc_module="TcbLevels_MC", mc_cfg=_tcbl_cfg(tier), driver="tcblevels", trace_module="TcbLevels_Trace",
                        trace_consts=TCBL_TRACE_CONSTS, key_fn=_key_tcbl, case_fn=pick, mc_workers=1,
                        required_actions=("ScanPlat", "ScanModule", "CombineStatus", "ScanQe"),
                        assumptions=["each comparison of the selection is reduced to pass / fail at a boundary index; concrete SVN vectors are seeded random around the boundary",
                                     "TCB Info / QE identity are honestly signed by the generated TCB signer so that only the selection decides"],
                        rule="every TcbLevels case (ordered level lists, module identities, statuses) becomes a platform + signed collateral; verify.TdxQuote's verdict and SupportedTcbLevelsFromCollateral's result must be the declarative first-match outcome")


def _c04(prop, tier):
    t0 = _time.time()
    _, v1, c1 = verifyfam.run(prop, tier, part=True)
    _, v2, c2 = _tcbl_run(prop, tier, "tcb")
    _, v3, c3 = _hist_run(prop, tier, dims=verifyfam.CFG[prop]["focus"])
    return smallfam.combine(prop, tier, [("worlds", v1, c1), ("level-selection", v2, c2), ("histories", v3, c3)], t0)


def _c07(prop, tier):
    t0 = _time.time()
    _, v1, c1 = verifyfam.run(prop, tier, part=True)
    _, v2, c2 = _tcbl_run(prop, tier, "qe")
    _, v3, c3 = _hist_run(prop, tier, dims=verifyfam.CFG[prop]["focus"])
    return smallfam.combine(prop, tier, [("worlds", v1, c1), ("level-selection", v2, c2), ("histories", v3, c3)], t0)


def _c0407_replay(prop, path):
    rp = _json.load(open(path))
    if "hist" in (rp.get("case") or {}):
        return _c12_replay(prop, path)
    if "kind" in (rp.get("case") or {}):
        return smallfam.replay(prop, path, driver="tcblevels", trace_module="TcbLevels_Trace", trace_consts=TCBL_TRACE_CONSTS)
    return verifyfam.replay(prop, path)


TABLE["C04"] = dict(run=_c04, replay=_c0407_replay)
TABLE["C07"] = dict(run=_c07, replay=_c0407_replay)


# ------------------------------------------------------------------------------------------
C16_KINDS = ["verify", "validate", "serialise", "extract", "parse"]


def _c16_cases(cases, tier):
    import random
    out = [dict(mode="footprint", kind=k, origin=o) for k in C16_KINDS for o in ("parsed", "built", "protobuf", "sparse")]
    combos = []
    seen = set()
    for c in cases:
        ks = tuple(sorted(c["kinds"].values() if isinstance(c["kinds"], dict) else c["kinds"]))
        if ks not in seen:
            seen.add(ks)
            combos.append(list(ks))
    rnd = random.Random(C.seed())
    must = [c for c in combos if c.count("verify") == 3 or (c.count("verify") == 2 and "validate" in c) or c == sorted(["verify", "serialise", "extract"])
            or c == sorted(["verify", "validate", "parse"])]
    rest = [c for c in combos if c not in must]
    pick = must + (rest if tier == "thorough" else rnd.sample(rest, min(4, len(rest))))
    out += [dict(mode="race", kinds=c) for c in pick]
    return out


def _c16_post(wd, summ):
    """Attribute the race detector's reports (stderr of the -race build) to the race cases and write them into the trace."""
    err = open(_os.path.join(wd, "summary.json.stderr")).read()
    per, sites, cur = {}, {}, None
    for line in err.splitlines():
        m = _re.match(r"VERIF-RACE-CASE-BEGIN (\d+)", line)
        if m:
            cur = int(m.group(1))
            per.setdefault(cur, 0)
            sites.setdefault(cur, [])
            continue
        if line.startswith("VERIF-RACE-CASE-END"):
            cur = None
            continue
        if cur is not None and "WARNING: DATA RACE" in line:
            per[cur] += 1
        m = _re.match(r"\s+(github\.com/google/go-tdx-guest/\S+)\(", line)
        if cur is not None and m and m.group(1) not in sites[cur] and len(sites[cur]) < 6:
            sites[cur].append(m.group(1))
    tr = _os.path.join(wd, "trace.ndjson")
    lines = open(tr).read().splitlines()
    case = None
    out = []
    for ln in lines:
        e = _json.loads(ln)
        if e["ev"] == "Call":
            case = e["case"]
        if e["ev"] == "Race":
            if case not in per:
                raise C.Infra("no race-detector section for race case %s" % case)
            e["reports"] = per[case]
            e["sites"] = sites[case]
        out.append(_json.dumps(e, separators=(",", ":")))
    with open(tr, "w") as f:
        f.write("\n".join(out) + "\n")
    summ["counts"]["race_reports"] = sum(per.values())


def _key_c16(call, evs):
    i = call["input"]
    if i.get("mode") == "race":
        return "race:" + "+".join(i["kinds"])
    return "footprint:%s:%s" % (i["kind"], i["origin"])


def _c16(prop, tier):
    env = dict(_os.environ, GORACE="exitcode=0 halt_on_error=0")
    code, _, _ = smallfam.run(prop, tier, mc_module="SharedQuote_MC", mc_cfg="CONSTANTS\n  N = 3\nSPECIFICATION Spec\nINVARIANTS NoSharedWrite NoRace SameAsAlone EmptyFootprints ExportCase\nCHECK_DEADLOCK FALSE\n",
                              driver="shared", trace_module="SharedQuote_Trace", trace_consts="  N = 1\n", key_fn=_key_c16, case_fn=_c16_cases, race=True, harness_env=env,
                              post_harness=_c16_post, required_actions=("Step",),
                              assumptions=["real schedules are explored by the Go race detector under stress (go build -race), not by TLC; TLC exhausts the model's interleavings",
                                           "snapshots cover every exported byte slice reachable from the message, the raw input and the validation options up to its capacity (spare bytes pre-filled with a canary)"],
                              rule="TLC checks SharedQuote for 3 concurrent calls; every (call kind, message origin) pair is run once under a to-capacity snapshot; selected combinations of call kinds run concurrently under the race detector")
    return code


TABLE["C16"] = dict(run=_c16, replay=lambda p, path: smallfam.replay(p, path, driver="shared", trace_module="SharedQuote_Trace", trace_consts="  N = 1\n", race=True,
                                                                      harness_env=dict(_os.environ, GORACE="exitcode=0 halt_on_error=0")))

# ------------------------------------------------------------------------------------------
CCEL_MEASURED = "{0, 1, 2}"   # cross-checked against the log itself at run time (TCall binds the harness-computed set)


def _key_ccel(call, evs):
    i = call["input"]
    return "v=%s,p=%s,f=%s,lvl=%s,ld=%s,cf=%s,prior=%s" % (i["v"], i["p"], i["f"], i["lvl"], i.get("ld"), i.get("cf"), i.get("prior", "none")) + (",lg=%s" % i["lg"] if i.get("lg", "sample") != "sample" else "")


def _c18(prop, tier):
    cfg = "CONSTANTS\n  Measured = %s\nSPECIFICATION Spec\nINVARIANTS TypeOK StateOnlyBehindBothGates ErrorOtherwise ExportCase\nCHECK_DEADLOCK FALSE\n" % CCEL_MEASURED
    code, _, _ = smallfam.run(prop, tier, mc_module="Ccel_MC", mc_cfg=cfg, driver="ccel", trace_module="Ccel_Trace", trace_consts="  Measured = %s\n" % CCEL_MEASURED,
                              key_fn=_key_ccel, required_actions=("VerifyGate", "PolicyGate", "ExtractBank", "Replay"),
                              assumptions=["the sample CCEL table / log of testing/testdata with the sample quote's header and TD body, re-signed under a generated PKI",
                                           "the set of measured registers is computed from the log with go-eventlog (pinned dependency) and must equal the specification's constant"])
    return code


TABLE["C18"] = dict(run=_c18, replay=lambda p, path: smallfam.replay(p, path, driver="ccel", trace_module="Ccel_Trace", trace_consts="  Measured = %s\n" % CCEL_MEASURED))

# ------------------------------------------------------------------------------------------
import subprocess as _sp  # noqa: E402


def _build_check_tool():
    out = _os.path.join(C.BUILD, "check-tool")
    _os.makedirs(C.BUILD, exist_ok=True)
    p = _sp.run(["go", "build", "-buildvcs=false", "-o", out, "./tools/check"], cwd=C.REPO, env=C.GOENV, capture_output=True, text=True)
    if p.returncode != 0:
        raise C.Infra("tools/check does not build:\n" + p.stdout + p.stderr)
    return out


def _key_c19(call, evs):
    i = call["input"]
    b = dict(field="mr_td", cfg="absent", flag="absent", shape="full", fmt="textproto", quote="valid", inform="bin", roots="flagGood", net="off", crl="off", present="plain", cfgAny="absent", retry="short")
    dev = ["%s=%s" % (k, i[k]) for k in sorted(i) if k in b and i[k] != b[k] and k not in ("field",)]
    if i["cfg"] != "absent" or i["flag"] != "absent":
        dev.insert(0, "field=" + i["field"])
    for e in evs:
        if e.get("ev") == "ErrClass" and False:
            pass
    return ",".join(dev) or "baseline"


def _c19(prop, tier):
    tool = _build_check_tool()
    cfg = "CONSTANTS\n  Budget = %d\nSPECIFICATION Spec\nINVARIANTS TypeOK ExitIsTruthful ZeroOnlyWhenAllHolds FlagOverridesConfig ExportCase\nCHECK_DEADLOCK FALSE\n" % (2 if tier == "thorough" else 1)
    code, _, _ = smallfam.run(prop, tier, mc_module="CheckTool_MC", mc_cfg=cfg, driver="checktool", trace_module="CheckTool_Trace", trace_consts="  Budget = 1\n",
                              key_fn=_key_c19, harness_extra=["-arg", tool], required_actions=("Stage", "Succeed"),
                              assumptions=["the real tools/check binary built from the tree under test, run as a child process",
                                           "reachable-network cases: the unmodified binary reaches an in-harness fake PCS through HTTPS_PROXY and SSL_CERT_FILE",
                                           "the sandbox has no network: 'unreachable' needs no set-up (-timeout=400ms)",
                                           "quotes are generated (wall-clock validity) and rooted in a generated PKI given to the tool as a CA bundle"])
    return code


TABLE["C19"] = dict(run=_c19, replay=lambda p, path: smallfam.replay(p, path, driver="checktool", trace_module="CheckTool_Trace", trace_consts="  Budget = 1\n",
                                                                      harness_extra=["-arg", _build_check_tool()]))

# ------------------------------------------------------------------------------------------
def _key_sys(call, evs):
    i = call["input"]
    return "system:dev=%s,transit=%s,trust=%s,lvl=%s,collat=%s,pol=%s,consumer=%s,logfit=%s" % (
        i["dev"], i["transit"], i["trust"], i["lvl"], i["collat"], i["pol"], i["consumer"], i["logfit"])


def _sys_run(prop, tier):
    return smallfam.run(prop, tier, part=True, mc_module="TdxGuestSystem_MC",
                        mc_cfg="SPECIFICATION Spec\nINVARIANTS TypeOK DeliveredOnlyIfAllHolds HonestRunIsDelivered MoreCheckingNeverDeliversMore ExportCase\nCHECK_DEADLOCK FALSE\n",
                        driver="system", trace_module="TdxGuestSystem_Trace", trace_consts="", key_fn=_key_sys,
                        required_actions=("Guest", "Parse", "Verify", "Validate", "Replay"),
                        assumptions=["end to end through the public API of every package: scripted guest device, client.GetRawQuote, transit alteration, abi.QuoteToProto, verify.TdxQuote, validate.TdxQuote, rtmr.ParseCcelWithTdQuote on the sample event log"],
                        rule="every combination of device behaviour, transit alteration, trust, option level, served collateral, policy, consumer and event-log fit (4320 cases) runs end to end; what is delivered must be what TdxGuestSystem delivers")


SYS_ABS_CFG = ('CONSTANTS\n  K = 0\n  Focus = {}\n  OptSet = "levels"\n  NowVals = {"set"}\nSPECIFICATION Spec\nINVARIANTS AbstractionsHold\nCHECK_DEADLOCK FALSE\n')


def _c11(prop, tier):
    t0 = _time.time()
    # the composition's one-line abstractions of its components must agree with the component specifications
    C.tlc_must_pass(C.run_tlc("SystemAbstraction", SYS_ABS_CFG, workers=2, timeout=300), "SystemAbstraction (TdxGuestSystem's abstractions vs TdxVerify / GuestClient)")
    _, v1, c1 = verifyfam.run(prop, tier, part=True)
    _, v2, c2 = _sys_run(prop, tier)
    return smallfam.combine(prop, tier, [("honest-worlds", v1, c1), ("end-to-end", v2, c2)], t0)


def _c11_replay(prop, path):
    rp = _json.load(open(path))
    if "transit" in (rp.get("case") or {}):
        return smallfam.replay(prop, path, driver="system", trace_module="TdxGuestSystem_Trace", trace_consts="")
    return verifyfam.replay(prop, path)


TABLE["C11"] = dict(run=_c11, replay=_c11_replay)
