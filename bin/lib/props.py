"""Property table: which pipeline decides which property."""
from . import verifyfam


def _vf(prop, tier):
    code, _, _ = verifyfam.run(prop, tier)
    return code


TABLE = {}
for p in ("C01", "C02", "C03", "C04", "C05", "C06", "C07", "C11", "C12"):
    TABLE[p] = dict(run=_vf, replay=verifyfam.replay)


# ------------------------------------------------------------------------------------------
from . import smallfam  # noqa: E402


def _key_generic(call, evs):
    import json
    return json.dumps(call.get("input"), sort_keys=True, separators=(",", ":")).replace(" ", "")


C15_CFG = """SPECIFICATION Spec
INVARIANTS TypeOK DataOnlyWhenDeviceGood ErrorOtherwise NoQuoteAfterFailedReport ProtocolOrder ProviderVerbatim FallbackTriesDevice ExportCase
CHECK_DEADLOCK FALSE
"""


def _c15(prop, tier):
    code, _, _ = smallfam.run(prop, tier, mc_module="GuestClient_MC", mc_cfg=C15_CFG, driver="client", trace_module="GuestClient_Trace",
                              key_fn=_key_generic,
                              required_actions=("Start", "SendReport", "SendQuote", "ReturnData", "ReturnErr", "AskSupported", "ProviderQuote", "Fallback"),
                              assumptions=["the scripted client.Device / client.QuoteProvider stand for the kernel device and configfs-tsm",
                                           "ioctl numbers are re-derived from the Linux _IOWR definition", "inotify reports the fall-back's open of the configured device path"])
    return code


TABLE["C15"] = dict(run=_c15, replay=lambda p, path: smallfam.replay(p, path, driver="client", trace_module="GuestClient_Trace"))


# ------------------------------------------------------------------------------------------
RTMR_INV = "TypeOK" and "RefusedWritesNothing OneEntryPerIndex ExactlyOneExtend RegistersAreChains NothingElseBound ExportCase"


def _rtmr_cfg(tier):
    if tier == "thorough":
        consts = ("  Indices <- IndicesThorough\n  DigestLens = {47, 48, 49}\n  Hashes = {\"sha384\", \"sha256\"}\n  MaxCalls = 3\n"
                  "  InitStates = {\"empty\", \"unrelated\", \"unbound\", \"bound0\", \"two\"}\n")
    else:
        consts = ("  Indices <- IndicesQuick\n  DigestLens = {0, 47, 48, 49, 64}\n  Hashes = {\"sha384\", \"sha256\", \"sha512\"}\n  MaxCalls = 2\n"
                  "  InitStates = {\"empty\", \"unrelated\", \"unbound\", \"bound0\", \"two\"}\n")
    return "CONSTANTS\n" + consts + "SPECIFICATION Spec\nINVARIANTS " + RTMR_INV + "\nCHECK_DEADLOCK FALSE\n"


RTMR_TRACE_CONSTS = ("  Indices = {0}\n  DigestLens = {48}\n  Hashes = {\"sha384\"}\n  MaxCalls = 1000\n  InitStates = {\"empty\"}\n")


def _c17(prop, tier):
    code, _, _ = smallfam.run(prop, tier, mc_module="Rtmr_MC", mc_cfg=_rtmr_cfg(tier), driver="rtmr", trace_module="Rtmr_Trace",
                              trace_consts=RTMR_TRACE_CONSTS, key_fn=_key_generic, mc_workers=1,
                              required_actions=("Validate", "ReadDir", "ReadIndex", "NoneBound", "MkdirTemp", "WriteIndex", "WriteDigest"),
                              assumptions=["the in-memory configfsi.Client stands for configfs-tsm: an entry is bound by writing its index attribute and extended by writing digest",
                                           "go-configfs-tsm v0.3.2 (pinned dependency) performs the TSM sub-steps"])
    return code


TABLE["C17"] = dict(run=_c17, replay=lambda p, path: smallfam.replay(p, path, driver="rtmr", trace_module="Rtmr_Trace", trace_consts=RTMR_TRACE_CONSTS))
