"""Property table: which pipeline decides which property."""
from . import verifyfam


def _vf(prop, tier):
    code, _, _ = verifyfam.run(prop, tier)
    return code


TABLE = {}
for p in ("C01", "C02", "C03", "C04", "C05", "C06", "C07", "C11", "C12"):
    TABLE[p] = dict(run=_vf, replay=verifyfam.replay)


# ------------------------------------------------------------------------------------------
from . import smallfam  # noqa: E402


def _key_generic(call, evs):
    import json
    return json.dumps(call.get("input"), sort_keys=True, separators=(",", ":")).replace(" ", "")


C15_CFG = """SPECIFICATION Spec
INVARIANTS TypeOK DataOnlyWhenDeviceGood ErrorOtherwise NoQuoteAfterFailedReport ProtocolOrder ProviderVerbatim FallbackTriesDevice ExportCase
CHECK_DEADLOCK FALSE
"""


def _c15(prop, tier):
    code, _, _ = smallfam.run(prop, tier, mc_module="GuestClient_MC", mc_cfg=C15_CFG, driver="client", trace_module="GuestClient_Trace",
                              key_fn=_key_generic,
                              required_actions=("Start", "SendReport", "SendQuote", "ReturnData", "ReturnErr", "AskSupported", "ProviderQuote", "Fallback"),
                              assumptions=["the scripted client.Device / client.QuoteProvider stand for the kernel device and configfs-tsm",
                                           "ioctl numbers are re-derived from the Linux _IOWR definition", "inotify reports the fall-back's open of the configured device path"])
    return code


TABLE["C15"] = dict(run=_c15, replay=lambda p, path: smallfam.replay(p, path, driver="client", trace_module="GuestClient_Trace"))
