"""Texts for MANIFEST.json. One entry per property that has a registered check."""

TRUST = ("Trusted base: TLC; the world generator under harness/gen (standard library only; a self-check re-derives the ground truth "
         "of every generated world and aborts with exit 2 on disagreement); Go's crypto/x509, crypto/ecdsa, encoding/asn1, encoding/json; "
         "cryptographic axioms (no forgery, no collision).")

VF = ("TLC exhausts spec/TdxVerify.tla (verify.TdxQuote pipeline, one action per stage, abstract worlds = baseline plus a fault budget) and "
      "checks that the pipeline implies the declarative property; every enumerated (world, option) case is realised with fresh PKIs, a real v4 quote, "
      "signed collateral and CRLs and run through verify.RawTdxQuote / verify.TdxQuote; TLC judges every recorded execution against the declarative "
      "property (TdxVerify_Judge) and checks strict conformance with the pipeline (TdxVerify_Trace). ")

CHECKS = {
    "C01": dict(engine="tdxverify", design_ref="DESIGN.md §4 C01", technique="TLA+ model checking (TLC) + trace validation of real executions over generated forgeries and single-bit mutants",
                text=VF + "For C01 the worlds break one link at a time (foreign signer with/without key replacement, zero/off-curve/swapped key, out-of-range signature, "
                "broken binding, QE report signed by the intermediate or a foreign key) and sweep single-bit mutants of header, body, key, QE report, auth data and both signatures "
                "(sampled in quick, every bit in thorough), at all three option levels and both entry points.", note=TRUST),
    "C02": dict(engine="tdxverify", design_ref="DESIGN.md §4 C02", technique="TLA+ model checking (TLC) + trace validation over look-alike PKIs and role-confusion chains",
                text=VF + "For C02 all assignments of leaf/intermediate/embedded root to two PKIs with byte-identical names, five trusted pools (A, B, both, empty, none) and "
                "role-confusion leaves issued by the trusted PKI are enumerated (pairs over these dimensions); root-of-trust configurations are exercised through RootOfTrustToOptions.", note=TRUST),
    "C03": dict(engine="tdxverify", design_ref="DESIGN.md §4 C03", technique="TLA+ model checking (TLC) + trace validation with a scripted collateral endpoint",
                text=VF + "For C03 every signer/signed-bytes/alteration/unsigned-sibling/header/metadata fault of both documents and all pairs among them and the signed content are enumerated; "
                "the unsigned sibling always carries content that would flip the verdict if it were used.", note=TRUST),
    "C04": dict(engine="tdxverify", design_ref="DESIGN.md §4 C04", technique="TLA+ model checking (TLC) of Intel's TCB-level selection + trace validation of generated TCB Infos",
                text=VF + "For C04 the signed TCB Info content (identity fields, first-match level status, TDX-module branch) is varied singly and in pairs.", note=TRUST),
    "C05": dict(engine="tdxverify", design_ref="DESIGN.md §4 C05", technique="TLA+ model checking (TLC) + trace validation with generated CRLs and failing endpoints",
                text=VF + "For C05 revoked sets (target first/last/among hundreds, near-miss serials), CRL signers, endpoint outcomes and distribution-point sequences are enumerated singly and in pairs under all four option combinations.", note=TRUST),
    "C06": dict(engine="tdxverify", design_ref="DESIGN.md §4 C06", technique="TLA+ model checking (TLC) + trace validation on the expiry grid with opposed clocks",
                text=VF + "For C06 each of 13 artefacts is placed 1 s before / at / 1 s after its expiry (and 1 s before notBefore for path elements) at its governing clock with the other four clocks on the opposite side.", note=TRUST),
    "C07": dict(engine="tdxverify", design_ref="DESIGN.md §4 C07", technique="TLA+ model checking (TLC) + trace validation of re-signed QE reports against generated QE identities",
                text=VF + "For C07 the QE identity content (masked MISCSELECT/ATTRIBUTES, MRSIGNER, ISVPRODID, first-match level status) is varied with the QE report re-signed by the PCK key.", note=TRUST),
    "C11": dict(engine="tdxverify", design_ref="DESIGN.md §4 C11", technique="TLA+ model checking (TLC) + trace validation of honest worlds (completeness)",
                text=VF + "For C11 the judge demands acceptance of every honest world (baseline and pairs of honest variants: auth-data lengths, extra bytes, NUL trailer, later matching level, "
                "module branch, masked differences, unrelated CRL entries, failing-then-good distribution points, clocks at/before expiry) at every option level, with explicit and wall-clock time.", note=TRUST),
    "C12": dict(engine="tdxverify", design_ref="DESIGN.md §4 C12", technique="TLA+ model checking (TLC) + trace validation with a recording getter",
                text=VF + "For C12 the judge binds the recorded requests (none without GetCollateral, CRL endpoints only with CheckRevocations, FMSPC and CA parameters) and compares verdicts of one realisation across option levels (monotonicity).", note=TRUST),
}

ENGINES = [
    {"name": "tdxverify", "path": "spec/TdxVerify.tla", "serves_properties": ["C01", "C02", "C03", "C04", "C05", "C06", "C07", "C11", "C12"],
     "kind_free_text": "TLA+ specification of the verify.TdxQuote pipeline + TLC (exhaustive, fault budget) + Go world generator + TLC trace judge"},
]

NOTES = ("bin/check <id> quick|thorough. Exit 2 = infrastructure failure (never a verdict). VERIF_SEED seeds all random fillings. "
         "known-findings.txt lists fixed defects (see DESIGN.md §5).")

NOT_APPLICABLE = [
    {"property_id": p, "reason": "check under construction in this round (specification and driver not yet registered); see DESIGN.md §4"}
    for p in ("C08", "C09", "C10", "C13", "C14", "C15", "C16", "C17", "C18", "C19", "C20")
]
