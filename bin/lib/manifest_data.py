"""Texts for MANIFEST.json. One entry per property that has a registered check."""

TRUST = ("Trusted base: TLC; the world generator under harness/gen (standard library only; a self-check re-derives the ground truth "
         "of every generated world and aborts with exit 2 on disagreement); Go's crypto/x509, crypto/ecdsa, encoding/asn1, encoding/json; "
         "cryptographic axioms (no forgery, no collision).")

VF = ("TLC exhausts spec/TdxVerify.tla (verify.TdxQuote pipeline, one action per stage, abstract worlds = baseline plus a fault budget) and "
      "checks that the pipeline implies the declarative property; every enumerated (world, option) case is realised with fresh PKIs, a real v4 quote, "
      "signed collateral and CRLs and run through verify.RawTdxQuote / verify.TdxQuote; TLC judges every recorded execution against the declarative "
      "property (TdxVerify_Judge) and checks strict conformance with the pipeline (TdxVerify_Trace). ")

CHECKS = {
    "C01": dict(engine="tdxverify", design_ref="DESIGN.md §4 C01", technique="TLA+ model checking (TLC) + trace validation of real executions over generated forgeries and single-bit mutants",
                text=VF + "For C01 the worlds break one link at a time (foreign signer with/without key replacement, zero/off-curve/swapped key, out-of-range signature, "
                "broken binding, QE report signed by the intermediate or a foreign key) and sweep single-bit mutants of header, body, key, QE report, auth data and both signatures "
                "(sampled in quick, every bit in thorough), at all three option levels and both entry points.", note=TRUST),
    "C02": dict(engine="tdxverify", design_ref="DESIGN.md §4 C02", technique="TLA+ model checking (TLC) + trace validation over look-alike PKIs and role-confusion chains",
                text=VF + "For C02 all assignments of leaf/intermediate/embedded root to two PKIs with byte-identical names, five trusted pools (A, B, both, empty, none) and "
                "role-confusion leaves issued by the trusted PKI are enumerated (pairs over these dimensions); root-of-trust configurations are exercised through RootOfTrustToOptions.", note=TRUST),
    "C03": dict(engine="tdxverify", design_ref="DESIGN.md §4 C03", technique="TLA+ model checking (TLC) + trace validation with a scripted collateral endpoint",
                text=VF + "For C03 every signer/signed-bytes/alteration/unsigned-sibling/header/metadata fault of both documents and all pairs among them and the signed content are enumerated; "
                "the unsigned sibling always carries content that would flip the verdict if it were used.", note=TRUST),
    "C04": dict(engine="tdxverify", design_ref="DESIGN.md §4 C04", technique="TLA+ model checking (TLC) of Intel's TCB-level selection + trace validation of generated TCB Infos",
                text=VF + "For C04 the signed TCB Info content (identity fields, first-match level status, TDX-module branch) is varied singly and in pairs.", note=TRUST),
    "C05": dict(engine="tdxverify", design_ref="DESIGN.md §4 C05", technique="TLA+ model checking (TLC) + trace validation with generated CRLs and failing endpoints",
                text=VF + "For C05 revoked sets (target first/last/among hundreds, near-miss serials), CRL signers, endpoint outcomes and distribution-point sequences are enumerated singly and in pairs under all four option combinations.", note=TRUST),
    "C06": dict(engine="tdxverify", design_ref="DESIGN.md §4 C06", technique="TLA+ model checking (TLC) + trace validation on the expiry grid with opposed clocks",
                text=VF + "For C06 each of 13 artefacts is placed 1 s before / at / 1 s after its expiry (and 1 s before notBefore for path elements) at its governing clock with the other four clocks on the opposite side.", note=TRUST),
    "C07": dict(engine="tdxverify", design_ref="DESIGN.md §4 C07", technique="TLA+ model checking (TLC) + trace validation of re-signed QE reports against generated QE identities",
                text=VF + "For C07 the QE identity content (masked MISCSELECT/ATTRIBUTES, MRSIGNER, ISVPRODID, first-match level status) is varied with the QE report re-signed by the PCK key.", note=TRUST),
    "C11": dict(engine="tdxverify", design_ref="DESIGN.md §4 C11", technique="TLA+ model checking (TLC) + trace validation of honest worlds (completeness)",
                text=VF + "For C11 the judge demands acceptance of every honest world (baseline and pairs of honest variants: auth-data lengths, extra bytes, NUL trailer, later matching level, "
                "module branch, masked differences, unrelated CRL entries, failing-then-good distribution points, clocks at/before expiry) at every option level, with explicit and wall-clock time.", note=TRUST),
    "C12": dict(engine="tdxverify", design_ref="DESIGN.md §4 C12", technique="TLA+ model checking (TLC) + trace validation with a recording getter",
                text=VF + "For C12 the judge binds the recorded requests (none without GetCollateral, CRL endpoints only with CheckRevocations, FMSPC and CA parameters) and compares verdicts of one realisation across option levels (monotonicity).", note=TRUST),
}

ENGINES = [
    {"name": "tdxverify", "path": "spec/TdxVerify.tla", "serves_properties": ["C01", "C02", "C03", "C04", "C05", "C06", "C07", "C11", "C12"],
     "kind_free_text": "TLA+ specification of the verify.TdxQuote pipeline + TLC (exhaustive, fault budget) + Go world generator + TLC trace judge"},
]

NOTES = ("bin/check <id> quick|thorough. Exit 2 = infrastructure failure (never a verdict). VERIF_SEED seeds all random fillings. "
         "known-findings.txt lists fixed defects (see DESIGN.md §5).")


SM = ("TLC exhausts the property's specification for the tier's constants (the property as invariants of the model, every action covered) and exports every case; "
      "the harness replays each case against the real code through the public API and records one event per observable step; TLC validates the recorded trace against the "
      "trace specification (which re-uses the specification's actions / operators); a rejected trace is replayed in isolation before it is reported. ")

CHECKS.update({
    "C08": dict(engine="policy", design_ref="DESIGN.md §4 C08", technique="TLA+ model checking (TLC) of validate.TdxQuote's checks + trace validation",
                text=SM + "For C08: every abstract relation between each configured expectation and the quote (unset, empty, equal, differing first/last byte, short, long; RTMR and allowed-MR_TD list shapes; "
                "SVN minimums around the quote's value including byte-order-sensitive ones; component-wise TEE TCB SVN; every single XFAM / TD_ATTRIBUTES bit), singly and in pairs, on validate.TdxQuote and RawTdxQuote.", note=TRUST),
    "C09": dict(engine="quotewire", design_ref="DESIGN.md §4 C09", technique="TLA+ model checking (TLC) of the v4 parser machine + trace validation with an independent layout table",
                text=SM + "For C09: every single and double deviation of the size / type / length fields of a v4 quote (plus consistent re-decompositions), every truncation length, seeded large-size sweeps; "
                "accepted inputs must have every field equal to the slice the layout dictates, re-serialise to the input and have bytes 0-631 equal header||body; structurally deviating messages must be "
                "refused by CheckQuoteV4 / the serialiser exactly when malformed and round-trip exactly when well-formed.", note=TRUST),
    "C10": dict(engine="quotewire", design_ref="DESIGN.md §4 C10", technique="TLA+-enumerated untrusted inputs (TLC) + trace validation that every entry point returns",
                text=SM + "For C10 the judge is totality: byte strings (all wire cases, truncations, mutations) through QuoteToProto / verify.RawTdxQuote / validate.RawTdxQuote; structurally arbitrary messages "
                "through CheckQuoteV4, the serialisers, verify.TdxQuote at three levels, ExtractChainFromQuote, validate.TdxQuote; endpoint responses from the grammar of PcsResponse (re-signed so the odd values are used); "
                "SGX-extension DER from PckExt. Any panic or hang is a rejected trace.", note=TRUST + " No coverage-guided fuzzing (DESIGN.md §6)."),
    "C13": dict(engine="pckext", design_ref="DESIGN.md §4 C13", technique="TLA+ model checking (TLC) of the extraction fold + trace validation on generated certificates",
                text=SM + "For C13: all 24 orders of the top-level elements, unknown elements in any position, nine orders of the 18 TCB elements (incl. a seeded random permutation), and one deviation per case "
                "(out-of-range / negative integers, wrong lengths, wrong ASN.1 types, nested encodings, trailing bytes, missing or duplicated elements, structural faults); returned values are compared with the encoded ones.", note=TRUST),
    "C14": dict(engine="policy", design_ref="DESIGN.md §4 C14", technique="TLA+ model checking (TLC) of PolicyToOptions + validate + trace validation",
                text=SM + "For C14 the same cases as C08 are expressed as check-config Policy messages (plus SVN minimums 65536 and 2^32-1): conversion must be refused for every malformed message, and a converted "
                "policy must validate with the literal verdict.", note=TRUST),
    "C15": dict(engine="guestclient", design_ref="DESIGN.md §4 C15", technique="TLA+ model checking (TLC) of the device / provider protocol + trace validation with scripted devices",
                text=SM + "For C15 the full product of report result x quote result x status x OutLen x buffer content (2160 device behaviours) and all provider behaviours; every ioctl is logged with the facts the property names.", note=TRUST),
    "C17": dict(engine="rtmr", design_ref="DESIGN.md §4 C17", technique="TLA+ model checking (TLC) of request histories over a model TSM + trace validation with an in-memory configfs client",
                text=SM + "For C17 every history of two (thorough: three) requests over the request alphabet (indices incl. values that alias 0-3 when narrowed, digest lengths, hash algorithms, empty logs) from five initial TSM states; "
                "every TSM write is bound (entry, index value, digest bytes) and the registers are compared after every call, as digest-id chains and as real SHA-384 extend values.", note=TRUST),
    "C20": dict(engine="retry", design_ref="DESIGN.md §4 C20", technique="TLA+ model checking (TLC, safety + liveness under fairness) + trace validation of timed runs",
                text=SM + "For C20 a grid of (Timeout, MaxRetryDelay) including zero and a cap above the initial delay is model-checked (first success returned, waits = scheduled delay <= cap, give-up bound, termination); "
                "each (timeout, max, failures) case runs on the real getter with a scripted wrapped getter and a monotonic clock; lower timing bounds are strict, upper bounds carry 150 ms slack.",
                note=TRUST + " The host clock; scheduler noise beyond the slack surfaces as exit 2 (unreproduced), never as a violation."),
})
CHECKS["C04"]["text"] += " The level selection itself is specified in spec/TcbLevels.tla (declarative first match vs the loops as coded, module identities, all seven statuses) and every case runs through verify.TdxQuote and SupportedTcbLevelsFromCollateral."
CHECKS["C07"]["text"] += " QE level lists of up to two (thorough: three) levels in any order with all seven statuses are specified in spec/TcbLevels.tla and run through verify.TdxQuote."
CHECKS["C11"]["text"] += " A second part runs the composition spec/TdxGuestSystem.tla end to end through every package (scripted guest device, client.GetRawQuote, transit alteration, abi.QuoteToProto, verify, validate, ParseCcelWithTdQuote): an honest run must be delivered at every level."
CHECKS["C12"]["text"] += " Histories (spec/VerifyHistory.tla): two calls in one process over worlds that share keys and deterministic signatures (honest twin, faulty world, other platform), through one shared Options value or fresh ones, every call judged by all single-call properties; plus one timed history with the wall-clock time set."

ENGINES += [
    {"name": "policy", "path": "spec/Policy.tla", "serves_properties": ["C08", "C14"], "kind_free_text": "TLA+ spec of validate.TdxQuote / PolicyToOptions + TLC + Go driver + TLC trace validation"},
    {"name": "quotewire", "path": "spec/QuoteWire.tla", "serves_properties": ["C09", "C10"], "kind_free_text": "TLA+ specs QuoteWire / QuoteMsg / PcsResponse / NoCrash_Trace + TLC + Go drivers"},
    {"name": "pckext", "path": "spec/PckExt.tla", "serves_properties": ["C13"], "kind_free_text": "TLA+ spec of the SGX extension fold + TLC + DER-level generator"},
    {"name": "guestclient", "path": "spec/GuestClient.tla", "serves_properties": ["C15"], "kind_free_text": "TLA+ spec of the guest device protocol + TLC + scripted device"},
    {"name": "rtmr", "path": "spec/Rtmr.tla", "serves_properties": ["C17"], "kind_free_text": "TLA+ spec of RTMR extension over a model TSM + TLC + in-memory configfs client"},
    {"name": "retry", "path": "spec/Retry.tla", "serves_properties": ["C20"], "kind_free_text": "TLA+ spec of the retry loop (safety + liveness) + TLC + timed runs"},
]
NOT_APPLICABLE = []

CHECKS.update({
    "C16": dict(engine="sharedquote", design_ref="DESIGN.md §4 C16", technique="TLA+ model checking (TLC) of concurrent calls over shared memory cells + to-capacity snapshots + Go race detector runs judged by TLC",
                text=SM + "For C16 TLC explores all interleavings of three concurrent calls over the memory cells (raw input, live and spare part of every message slice, option byte strings); on the code every (call kind, message origin) pair "
                "runs under a before/after snapshot of every reachable byte slice up to its capacity (spare bytes pre-filled with a canary), parsing is probed for aliasing, and combinations of call kinds run concurrently in a -race build whose "
                "reports are attributed to the case; the trace judge demands the model's (empty) footprint, zero race reports and verdicts equal to the call run alone.",
                note=TRUST + " Real schedules are explored by the Go race detector under stress, not by TLC (DESIGN.md §6)."),
    "C18": dict(engine="ccel", design_ref="DESIGN.md §4 C18", technique="TLA+ model checking (TLC) of the two gates and the replay + trace validation on the sample CCEL log with re-signed quotes",
                text=SM + "For C18 every combination of verification fault, policy fault, flipped RTMR (each register; sampled bits in quick, every bit in thorough) and option level; the quote carries the sample quote's header and TD body, "
                "re-signed under a generated PKI so that the replay matches; the set of registers the log measures is computed from the log and must equal the specification's constant.", note=TRUST),
    "C19": dict(engine="checktool", design_ref="DESIGN.md §4 C19", technique="TLA+ model checking (TLC) of flag/config merge and exit-code selection + trace validation of real process runs",
                text=SM + "For C19 the real tools/check binary is built from the tree and run for every single deviation (thorough: pairs): each policy field x config value x flag value, config shapes and formats, quote formats and validity, "
                "root-of-trust sources, reachable / unreachable / failing / tampered PCS (the unmodified binary reaches an in-harness fake PCS through HTTPS_PROXY); the exit code must be in the specification's set, a Go panic is never accepted; "
                "the library's error classes for failed downloads are checked with errors.As.", note=TRUST),
})
ENGINES += [
    {"name": "system", "path": "spec/TdxGuestSystem.tla", "serves_properties": ["C11"], "kind_free_text": "composition of guest client, wire format, verification, validation and event-log replay; end-to-end driver"},
    {"name": "tcblevels", "path": "spec/TcbLevels.tla", "serves_properties": ["C04", "C07"], "kind_free_text": "TLA+ spec of Intel's TCB level selection (declarative first match vs loops)"},
    {"name": "history", "path": "spec/VerifyHistory.tla", "serves_properties": ["C12"], "kind_free_text": "TLA+ spec of call histories through a shared Options value"},
    {"name": "sharedquote", "path": "spec/SharedQuote.tla", "serves_properties": ["C16"], "kind_free_text": "TLA+ spec of memory cells and concurrent calls + TLC + snapshot / race-detector driver"},
    {"name": "ccel", "path": "spec/Ccel.tla", "serves_properties": ["C18"], "kind_free_text": "TLA+ spec of ParseCcelWithTdQuote's gates + TLC + sample-log driver"},
    {"name": "checktool", "path": "spec/CheckTool.tla", "serves_properties": ["C19"], "kind_free_text": "TLA+ spec of the check tool's merge and exit codes + TLC + process driver with fake PCS"},
]

# ---- additions after the seeded rounds (DESIGN.md Appendix F / G)
_HIST = (" A second part decides the property over two-call histories (spec/VerifyHistory.tla: honest twin / faulty world / other platform sharing keys, certificates and signature bytes; "
         "TdxQuote and RawTdxQuote mixed; shared or fresh Options; SupportedTcbLevelsFromCollateral or a caller-side pool change between the calls), every call judged by the single-call property.")
for _p in ("C01", "C02", "C03", "C04", "C05", "C06", "C07"):
    CHECKS[_p]["text"] += _HIST
CHECKS["C01"]["text"] += (" A third part (spec/VerifyIsolation.tla) model-checks all interleavings of concurrent calls with private buffers (and refutes the shared-buffer counter-model) and runs sixteen goroutines per altered "
                          "region that verify genuine and altered quotes at the same time: every verdict must be the verdict of the goroutine's own input.")
CHECKS["C06"]["text"] += " Timed histories with Options.Now == nil (the leaf expires between two calls; the first call succeeds, or fails while fetching) are part of it."
CHECKS["C08"]["text"] += " The same cases are also run as policy messages through PolicyToOptions (dense and sparse messages)."
CHECKS["C10"]["text"] += " A fifth part serves every HTTP response shape of spec/HttpsGet.tla (statuses, redirects, TLS faults, truncated and absurdly long bodies) to trust.SimpleHTTPSGetter under the same totality judge. abi.SignatureToDER is called on every byte string, its first 64 bytes and the bytes at the signature offset (its DER must decode to the given r and s, reported as a note)."
CHECKS["C11"]["text"] += " spec/SystemAbstraction.tla checks (TLC) that the composition's one-line abstractions agree with TdxVerify, GuestClient and CheckTool."
CHECKS["C15"]["text"] += " Cases are also run after an earlier call in the same process (a successful device call on the same goroutine; a provider that answered IsSupported differently); devices may leave OutLen unwritten or rewrite the request length; result codes include values whose low 32 bits are zero."
CHECKS["C17"]["text"] += " Added by case extension: every crypto.Hash value 0..31, indices beyond 32 bits, and TSM write faults (mkdir / index / digest failing in a call that reaches it) followed by calls that must be unaffected."
CHECKS["C18"]["text"] += " Also: the same options value (and the same verify.Options object) serving a successful call first; empty and nil event logs; the genuine sample quote under no pool and under an empty pool; a component-wise TEE_TCB_SVN minimum."
CHECKS["C19"]["text"] += " Also: -quiet / -verbosity / quote on standard input, the config's any_mr_td allow-list under an -mr_td flag, zero and negative -timeout / -max_retry_delay, every number spelling the tool accepts, several kinds of unparsable quote; runs against an unreachable PCS must end within five seconds."
CHECKS["C20"]["text"] += (" RetryInd.tla: Apalache proves the loop's invariant for all parameter values. A grid point with forty failures in one call; successes with empty / nil body and headers; the bound is also checked through the "
                          "command line of tools/check. spec/HttpsGet.tla (the wrapped transport and DefaultHTTPSGetter's shape) is validated as a non-verdict part.")
CHECKS["C15"]["text"] += " spec/AttestTool.tla (the tools/attest command line around the same client calls: stages, exit status, what a refused run leaves behind) is validated against the real binary as a non-verdict part."
CHECKS["C17"]["text"] += " spec/ExtendTool.tla (the tools/extend command line around rtmr.ExtendEventLog: stages, exit status, what -quiet silences) is validated against the real binary as a non-verdict part."
ENGINES += [
    {"name": "extendtool", "path": "spec/ExtendTool.tla", "serves_properties": ["C17"], "kind_free_text": "TLA+ spec of the tools/extend command line + TLC + runs of the real binary (non-verdict part)"},
    {"name": "attesttool", "path": "spec/AttestTool.tla", "serves_properties": ["C15"], "kind_free_text": "TLA+ spec of the tools/attest command line + TLC + runs of the real binary (non-verdict part)"},
    {"name": "isolation", "path": "spec/VerifyIsolation.tla", "serves_properties": ["C01"], "kind_free_text": "TLA+ spec of concurrent verifications with private buffers (+ shared-buffer counter-model) + TLC + concurrent driver"},
    {"name": "httpsget", "path": "spec/HttpsGet.tla", "serves_properties": ["C10", "C20"], "kind_free_text": "TLA+ spec of the HTTPS transport under the retrying getter + TLC + in-harness TLS servers behind a CONNECT proxy"},
    {"name": "abstraction", "path": "spec/SystemAbstraction.tla", "serves_properties": ["C11"], "kind_free_text": "cross-specification consistency: the composition's abstractions vs TdxVerify / GuestClient / CheckTool (TLC)"},
]
for _e in ENGINES:
    if _e["name"] == "history":
        _e["serves_properties"] = ["C01", "C02", "C03", "C04", "C05", "C06", "C07", "C12"]
