"""Checks of the verify.TdxQuote family (C01 C02 C03 C05 C06 C11 C12 and the world-level part of C04/C07):
TLC model-checks spec/TdxVerify for the property's constants and exports the case list, the harness runs
every case against the real code, TdxVerify_Judge (TLC) judges the recorded trace against the declarative
property, TdxVerify_Trace (TLC) checks strict conformance with the pipeline (model drift = note only)."""
import json
import os
import time
from concurrent.futures import ThreadPoolExecutor

from . import common as C

ALL_INV = ["TypeOK", "Sound_C01", "Sound_C02", "Sound_C03", "Sound_C04", "Sound_C05", "Sound_C06", "Sound_C07",
           "Complete_C11", "Gating_C12", "Monotone_C12", "MachineIsFunction", "LaterNeverHelps"]

# per property: pair-focus dimensions (quick), option sets
CFG = {
    "C01": dict(focus=["qsig", "ak", "bind", "qeSigner", "authLen", "extra", "leafId"], optset="levels", now=["set"]),
    "C02": dict(focus=["leafPki", "interPki", "rootPki", "pool", "leafRole", "interSlot", "src", "rotVia", "leafExtCritical"], optset="levels", now=["set"]),
    "C03": dict(focus=["tcbSigner", "tcbOver", "tcbExtra", "tcbHdr", "tcbMeta", "tcbContent", "modBranch",
                       "qeSignerDoc", "qeOver", "qeExtra", "qeHdr", "qeMeta", "qeContent", "sharedSigner"], optset="levels", now=["set"]),
    "C04": dict(focus=["tcbContent", "modBranch", "tcbExtra", "sgxOrder"], optset="levels", now=["set"]),
    "C05": dict(focus=["pckCrlRev", "rootCrlRev", "pckCrlSigner", "rootCrlSigner", "pckCrlFetch", "rootCrlDps", "serials", "sharedSigner", "pool", "crlShape"], optset="all", now=["set"]),
    "C06": dict(focus=["time", "sharedSigner", "crlChain"], optset="levels", now=["set"]),
    "C07": dict(focus=["qeContent", "qeExtra"], optset="levels", now=["set"]),
    "C11": dict(focus=["authLen", "extra", "trailer", "tcbContent", "modBranch", "qeContent", "pckCrlRev", "rootCrlRev", "rootCrlDps", "leafId", "serials", "sigShape", "sgxOrder", "sgxValues", "tcbHdr", "crlShape", "sharedSigner", "src", "pool"],
                optset="levels", now=["set", "unset"]),
    "C12": dict(focus=["pool", "interCN", "tcbHdr", "qeHdr", "pckCrlFetch", "rootCrlDps"], optset="all", now=["set", "unset"]),
}


def cfg_text(prop, tier, spec="Spec", invs=ALL_INV, extra_inv=()):
    c = CFG[prop]
    k = 2 if tier == "thorough" else 1
    focus = "{" + ", ".join('"%s"' % d for d in c["focus"]) + "}"
    now = "{" + ", ".join('"%s"' % d for d in c["now"]) + "}"
    lines = ["CONSTANTS", "  K = %d" % k, "  Focus = %s" % focus, '  OptSet = "%s"' % c["optset"], "  NowVals = %s" % now,
             "SPECIFICATION %s" % spec, "CHECK_DEADLOCK FALSE"]
    if invs or extra_inv:
        lines.append("INVARIANTS " + " ".join(list(invs) + list(extra_inv)))
    return "\n".join(lines) + "\n"


def world_key(w, o=None):
    base = None
    parts = []
    for d in sorted(w):
        parts.append((d, w[d]))
    return parts


_BASELINE = None


def baseline():
    global _BASELINE
    if _BASELINE is None:
        import re
        src = open(os.path.join(C.HARNESS_SRC, "gen", "world.go")).read()
        m = re.search(r"var Baseline = World\{(.*?)\n\}", src, re.S)
        _BASELINE = dict(re.findall(r'"(\w+)":\s*"(\w+)"', m.group(1)))
    return _BASELINE


def witness_key(w, o):
    b = baseline()
    dev = ",".join("%s=%s" % (d, w[d]) for d in sorted(w) if b.get(d) != w[d]) or "baseline"
    return "%s|gc=%d,cr=%d,now=%s,entry=%s" % (dev, int(bool(o["gc"])), int(bool(o["cr"])), o["now"], o["entry"])


def group_cases(tlc_cases):
    """One case per world, with all its option settings as runs."""
    by = {}
    order = []
    for c in tlc_cases:
        k = json.dumps(c["w"], sort_keys=True)
        if k not in by:
            by[k] = dict(w=c["w"], runs=[])
            order.append(k)
        by[k]["runs"].append(c["o"])
    out = []
    b = baseline()
    for i, k in enumerate(order):
        g = by[k]
        g["runs"].sort(key=lambda o: (o["now"], o["entry"], int(o["gc"]) + 2 * int(o["cr"]) if not (o["cr"] and not o["gc"]) else 9))
        out.append(dict(id=i + 1, w={d: v for d, v in g["w"].items() if b.get(d) != v}, runs=g["runs"]))
    return out


def spec_dims():
    """The dimension table of spec/TdxVerify.tla (single source of truth), parsed from the module text."""
    import re
    src = open(os.path.join(C.SPEC, "TdxVerify.tla")).read()
    m = re.search(r"Dims == \[(.*?)\n\]\n", src, re.S)
    dims = {}
    for d, vals in re.findall(r"(\w+)\s*\|->\s*<<(.*?)>>", m.group(1), re.S):
        dims[d] = re.findall(r'"(\w+)"', vals)
    return dims


def random_worlds(cases, n):
    """Seeded random worlds beyond TLC's budget (3 to 5 deviating dimensions), appended to the case list. They go through the same
    recorder and the same TLC judges; a combination the generator's self-check refuses is counted as skipped."""
    import random
    dims = spec_dims()
    names = [d for d in dims if d != "src"]
    rnd = random.Random(C.seed() * 7919 + 13)
    nid = max([c["id"] for c in cases] + [0])
    added = 0
    while added < n:
        ds = rnd.sample(names, rnd.choice([3, 4, 5]))
        w = {d: rnd.choice(dims[d][1:]) for d in ds}
        if w.get("rotVia", "pool") != "pool" and w.get("pool") == "empty":
            continue
        nid += 1
        added += 1
        cases.append(dict(id=nid, w=w, x=dict(lenient=True),
                          runs=[dict(gc=g, cr=c_, now="set", entry=("msg" if "msgWide" in w else rnd.choice(["raw", "msg"]))) for g, c_ in ((False, False), (True, False), (True, True))]))
    return added


# Pairs a property's check adds to the enumerated worlds whatever the fault budget: (dimension, dimension, values of the second or None = all).
# C03: a collateral signer the trusted root did not certify, presented while the time set is outside that signer's (or its root's) validity
# period -- the path check must refuse it for what it is, whatever it makes of the dates.
CROSS = {
    "C03": [("tcbSigner", "time", ["tcbSigner_preNB", "tcbSigner_before", "tcbSigner_at", "tcbSigner_after", "tcbRoot_before", "tcbRoot_at", "tcbRoot_after"]),
            ("qeSignerDoc", "time", ["qeSigner_preNB", "qeSigner_before", "qeSigner_at", "qeSigner_after", "qeRoot_before", "qeRoot_at", "qeRoot_after"])],
}


def cross_worlds(cases, prop):
    dims = spec_dims()
    nid = max([c["id"] for c in cases] + [0])
    added = 0
    for a, b, bvals in CROSS.get(prop, []):
        for av in dims[a][1:]:
            for bv in (bvals or dims[b][1:]):
                if bv not in dims[b]:
                    raise C.Infra("cross world names an unknown value %s=%s" % (b, bv))
                nid += 1
                added += 1
                cases.append(dict(id=nid, w={a: av, b: bv}, x=dict(lenient=True),
                                  runs=[dict(gc=g, cr=c_, now="set", entry=e) for g, c_ in ((False, False), (True, False), (True, True)) for e in ("msg", "raw")]))
    return added


def split_trace(path, wd, max_events=25000):
    """Split an ndjson trace at case boundaries into chunks of at most max_events events."""
    chunks, cur, cur_case, n = [], [], None, 0
    idx = 0

    def flush():
        nonlocal cur, idx
        if cur:
            p = os.path.join(wd, "chunk%04d.ndjson" % idx)
            with open(p, "w") as f:
                f.writelines(cur)
            chunks.append((p, len(cur)))
            idx += 1
            cur = []

    with open(path) as f:
        for line in f:
            if line.startswith('{"') and '"ev":"Call"' in line:
                case = json.loads(line)["case"]
                if case != cur_case and len(cur) >= max_events:
                    flush()
                cur_case = case
            cur.append(line)
    flush()
    return chunks


def judge_chunk(args):
    module, spec, chunk, n, consts, wd = args
    cfg = "CONSTANTS\n  K = 0\n  Focus = {}\n  OptSet = \"all\"\n  NowVals = {\"set\"}\n  TraceFile = \"%s\"\n" % chunk
    for k, v in consts.items():
        cfg += '  %s = "%s"\n' % (k, v)
    cfg += "SPECIFICATION %s\nPOSTCONDITION TraceAccepted\nCHECK_DEADLOCK FALSE\n" % spec
    sub = os.path.join(wd, "j-" + os.path.basename(chunk) + "-" + module)
    os.makedirs(sub, exist_ok=True)
    r = C.run_tlc(module, cfg, workdir=sub, workers=1, timeout=1800, heap="3g")
    return chunk, n, r


def first_unconsumed(chunk, r, strict=False):
    """1-based index of the first event TLC could not consume (from the search depth / high-water mark)."""
    if strict:
        import re
        m = re.search(r"HWM (\d+)", r.out)
        return int(m.group(1)) if m else None
    return r.depth if r.depth else None


def case_of_event(chunk, idx):
    """Return (case id, sub, call event, return event) for the event at 1-based index idx of the chunk."""
    lines = open(chunk).read().splitlines()
    i = idx - 1
    j = i
    while j >= 0 and '"ev":"Call"' not in lines[j]:
        j -= 1
    call = json.loads(lines[j])
    k = i
    while k < len(lines) and '"ev":"Return"' not in lines[k]:
        k += 1
    ret = json.loads(lines[k]) if k < len(lines) else None
    evs = [json.loads(x) for x in lines[j:k + 1]]
    return call, ret, evs, j + 1


def run(prop, tier, judge_prop=None, level="model_checking", extra_cov=None, cases_filter=None, t_start=None, part=False):
    t0 = t_start or time.time()
    judge_prop = judge_prop or prop
    wd = C.scratch("verif-%s-" % prop)
    binary = C.build_harness()

    # 1. model checking (all invariants, coverage, 8 workers) and case export (initial states only, 1 worker) side by side
    with ThreadPoolExecutor(max_workers=2) as ex:
        f_mc = ex.submit(C.run_tlc, "TdxVerify_MC", cfg_text(prop, tier, invs=ALL_INV), None, 8, 7200, (), tier == "quick", False, "12g")
        f_ex = ex.submit(C.run_tlc, "TdxVerify_MC", cfg_text(prop, tier, spec="ExportSpec", invs=["ExportCase"]), None, 1, 7200, (), False, True, "8g")
        r, rx = f_mc.result(), f_ex.result()
    C.tlc_must_pass(r, "TdxVerify model check for %s" % prop)
    C.tlc_must_pass(rx, "TdxVerify case export for %s" % prop)
    r.cases = rx.cases
    if not r.cases:
        raise C.Infra("no cases exported")
    zero = [a for a in r.coverage_zero if a in ("RootOfTrust", "CheckQuote", "ExtractChain", "ExtractCa", "FetchTcbInfo", "FetchQeIdentity", "FetchPckCrl", "FetchRootCrl",
                                                 "VerifyChain", "VerifyCollateral", "VerifyTcbInfo", "VerifyQeIdentity", "VerifyQuote", "Accept")]
    if zero:
        raise C.Infra("vacuity gate: actions never taken in the model: %s" % zero)
    cases = group_cases(r.cases)
    if cases_filter:
        cases = [c for c in cases if cases_filter(c)]
    n_cross = cross_worlds(cases, prop)
    n_random = random_worlds(cases, 4000 if tier == "thorough" else 300)
    cases_path = os.path.join(wd, "cases.jsonl")
    with open(cases_path, "w") as f:
        for c in cases:
            f.write(json.dumps(c) + "\n")
    t_mc = time.time() - t0
    C.log("[%s] model: %d states generated, %d distinct, depth %d; %d worlds, %d (world, option) cases" %
          (prop, r.generated, r.distinct, r.depth, len(cases), len(r.cases)))

    # 2. real code
    trace = os.path.join(wd, "trace.ndjson")
    summ = C.run_harness(binary, "verify", cases_path, trace, os.path.join(wd, "summary.json"), tier)
    t_h = time.time() - t0 - t_mc
    C.log("[%s] harness: %d runs of the real code, %d events, verdicts %s" % (prop, summ["runs"], summ["events"], summ["counts"]))

    # 3. judge
    chunks = split_trace(trace, wd)
    violations = []
    drift = None
    with ThreadPoolExecutor(max_workers=8) as ex:
        jobs = [("TdxVerify_Judge", "JSpec", p, n, {"Prop": judge_prop}, wd) for p, n in chunks]
        judged = list(ex.map(judge_chunk, jobs))
        sjobs = [("TdxVerify_Trace", "TSpec", p, n, {}, wd) for p, n in chunks]
        strict = list(ex.map(judge_chunk, sjobs))
    consumed = 0
    for chunk, n, jr in judged:
        if jr.ok:
            consumed += n
            continue
        if not jr.postcondition_false:
            raise C.Infra("judge failed on %s:\n%s" % (chunk, jr.out[-3000:]))
        # walk through all rejected returns of this chunk: re-judge the remainder after each failure
        if len(violations) < C.MAX_VIOLATIONS:
            violations += collect_violations(prop, judge_prop, chunk, n, jr, wd, binary, tier, C.MAX_VIOLATIONS - len(violations))
    for chunk, n, sr in strict:
        if not sr.ok and drift is None:
            if not sr.postcondition_false:
                raise C.Infra("strict conformance run failed on %s:\n%s" % (chunk, sr.out[-3000:]))
            import re as _re
            m = _re.search(r'"HWM", (\d+)', sr.out)
            where = ""
            if m:
                call, ret, evs, _ = case_of_event(chunk, int(m.group(1)))
                where = " at event %s of case %s [%s]: observed %s" % (m.group(1), call["case"], witness_key(call["w"], call["o"]),
                                                                    [(e.get("kind") or e.get("verdict")) for e in evs[1:]])
            drift = "strict conformance with the pipeline model diverges in %s%s" % (os.path.basename(chunk), where)

    C.log("[%s] phases: model %.1fs, harness %.1fs, judging %.1fs" % (prop, t_mc, t_h, time.time() - t0 - t_mc - t_h))
    unrep = list(UNREPRODUCED)
    del UNREPRODUCED[:]
    if unrep and not violations and not part:
        raise C.Infra("%d rejected traces, none of which reproduced in isolation or after the earlier calls of their case (first: %s)" % (len(unrep), unrep[0]))
    # 4. settle + evidence
    code = 0 if part else C.settle(prop, violations)
    cov = {
        "states": r.distinct, "transitions": r.generated,
        "traces_validated_against_impl": summ["runs"],
        "events_judged": summ["events"],
        "worlds": len(cases),
        "random_worlds_beyond_budget": n_random,
        "explicit_pair_worlds": n_cross,
        "exhaustive": True,
        "model_constants": cfg_text(prop, tier, invs=[]).strip().splitlines()[1:5],
        "invariants_checked_on_model": ALL_INV,
        "verdict_counts": summ["counts"],
        "skipped_unrealisable": summ["skipped"],
        "strict_conformance": "all events are behaviours of the pipeline model" if drift is None else drift,
        "samples": summ["samples"][:4],
        "rule": "every world within the fault budget x every option setting, TLC-enumerated, plus seeded random worlds with 3-5 deviating dimensions; each run of the real code is one trace",
    }
    if unrep and part:
        cov["unreproduced"] = unrep
    if extra_cov:
        cov.update(extra_cov)
    if drift:
        C.log("NOTE [%s] model drift (not a property verdict): %s" % (prop, drift))
    if part:
        cov["assumptions"] = ["TLC explores the abstract worlds exhaustively within the stated budget",
                              "the world generator (harness/gen) realises each abstract value as documented; its self-check aborts on disagreement",
                              "Go crypto/x509, crypto/ecdsa, encoding/json are trusted", "cryptographic facts (no forgery, no collision) are axioms"]
        return 0, violations, cov
    C.write_evidence(prop, tier, level, cov, time.time() - t0, len(violations),
                     ["TLC explores the abstract worlds exhaustively within the stated budget",
                      "the world generator (harness/gen) realises each abstract value as documented; its self-check aborts on disagreement",
                      "Go crypto/x509, crypto/ecdsa, encoding/json are trusted", "cryptographic facts (no forgery, no collision) are axioms"])
    return code, violations, cov


UNREPRODUCED = []   # rejected traces of this run that reproduced neither alone nor after their predecessors


def collect_violations(prop, judge_prop, chunk, n, jr, wd, binary, tier, limit):
    """The judge stops at the first Return it cannot consume. Record it, cut the trace after that call, continue."""
    out = []
    lines = open(chunk).read().splitlines(keepends=True)
    offset = 0
    cur = jr
    cur_chunk = chunk
    rounds = 0
    while True:
        idx = cur.depth  # number of consumed events + 1 == index of the unconsumed event (1-based)
        if not idx or idx > len(lines) - offset:
            raise C.Infra("cannot localise the rejected event in %s (depth %s)" % (cur_chunk, idx))
        call, ret, evs, call_idx = case_of_event(cur_chunk, idx)
        key = witness_key(call["w"], call["o"])
        runs = [call["o"]]
        if judge_prop in ("C12", "ALL"):
            # monotonicity compares the verdicts of one realisation across option levels: replay the whole group
            runs = [dict(gc=g, cr=c_, now=call["o"]["now"], entry=call["o"]["entry"]) for g, c_ in ((False, False), (True, False), (True, True), (False, True))]
        replay = C.write_replay(prop, "%d-%d" % (call["case"], call.get("sub", 0)),
                                dict(property=prop, judge=judge_prop, seed=C.seed(), tier=tier, case=dict(id=call["case"], w=call["w"], runs=runs),
                                     bit=call.get("bit"), observed=evs, key=key))
        # reproduce in isolation against the current tree
        if reproduce(prop, judge_prop, replay, binary, wd):
            out.append(dict(key=key, replay=replay, text="observed %s: %s" % (ret and ret.get("verdict"), (ret or {}).get("err", "")[:160])))
        else:
            # the verdict of a call may depend on the calls made before it in the same process (a cache, left-over state): replay the
            # calls of this case up to this one, in their order; only if that does not reproduce either is the rejection unexplained
            earlier = []
            for ln in open(cur_chunk):
                if '"ev":"Call"' in ln:
                    e = json.loads(ln)
                    if e["case"] == call["case"] and e.get("bit") == call.get("bit"):
                        earlier.append(e["o"])
                        if e.get("sub") == call.get("sub"):
                            break
            replay2 = C.write_replay(prop, "%d-%d-seq" % (call["case"], call.get("sub", 0)),
                                     dict(property=prop, judge=judge_prop, seed=C.seed(), tier=tier, case=dict(id=call["case"], w=call["w"], runs=earlier),
                                          bit=call.get("bit"), observed=evs, key=key + " (after the earlier calls of this case)"))
            if len(earlier) > 1 and reproduce(prop, judge_prop, replay2, binary, wd):
                out.append(dict(key=key + " (after the earlier calls of this case)", replay=replay2,
                                text="observed %s: %s" % (ret and ret.get("verdict"), (ret or {}).get("err", "")[:160])))
            else:
                UNREPRODUCED.append(replay)
                if len(UNREPRODUCED) > 12:
                    raise C.Infra("%d rejected traces did not reproduce in isolation (first: %s)" % (len(UNREPRODUCED), UNREPRODUCED[0]))
        rounds += 1
        if rounds >= limit:
            C.log("[%s] %d witnesses reported; further rejected traces are not enumerated" % (prop, rounds))
            break
        # continue after this call
        # find end of this call (Return) relative to the current chunk
        cl = open(cur_chunk).read().splitlines(keepends=True)
        k = idx - 1
        while k < len(cl) and '"ev":"Return"' not in cl[k]:
            k += 1
        rest = cl[k + 1:]
        # skip to next Call of a different case to keep acc consistent
        while rest and not ('"ev":"Call"' in rest[0] and json.loads(rest[0])["case"] != call["case"]):
            rest = rest[1:]
        if not rest:
            break
        nxt = os.path.join(wd, "rest-%s-%d.ndjson" % (os.path.basename(chunk), rounds))
        with open(nxt, "w") as f:
            f.writelines(rest)
        _, _, cur = judge_chunk(("TdxVerify_Judge", "JSpec", nxt, len(rest), {"Prop": judge_prop}, wd))
        cur_chunk = nxt
        if cur.ok:
            break
        if not cur.postcondition_false:
            raise C.Infra("judge failed on remainder:\n%s" % cur.out[-2000:])
    return out


def reproduce(prop, judge_prop, replay_path, binary, wd):
    """Re-run exactly the recorded abstract case against the current tree and re-judge. True iff still rejected."""
    rp = json.load(open(replay_path))
    case = rp["case"]
    b = baseline()
    case = dict(id=case["id"], w={d: v for d, v in case["w"].items() if b.get(d) != v}, runs=case["runs"])
    sub = os.path.join(wd, "repro-%d-%d" % (case["id"], time.time_ns() % 100000))
    os.makedirs(sub, exist_ok=True)
    cp = os.path.join(sub, "case.jsonl")
    with open(cp, "w") as f:
        f.write(json.dumps(case) + "\n")
    tr = os.path.join(sub, "trace.ndjson")
    extra = []
    if rp.get("bit") is not None:
        extra = ["-arg", "bit=%d" % rp["bit"]]
    C.run_harness(binary, "verify", cp, tr, os.path.join(sub, "s.json"), rp.get("tier", "quick"), extra=extra)
    n = sum(1 for _ in open(tr))
    _, _, jr = judge_chunk(("TdxVerify_Judge", "JSpec", tr, n, {"Prop": judge_prop}, sub))
    if jr.ok:
        return False
    if not jr.postcondition_false:
        raise C.Infra("judge failed during reproduction:\n%s" % jr.out[-2000:])
    return True


def replay(prop, path):
    """bin/check <prop> --replay <path>."""
    binary = C.build_harness()
    wd = C.scratch("verif-replay-")
    rp = json.load(open(path))
    again = reproduce(prop, rp.get("judge", prop), path, binary, wd)
    if again:
        C.log("VIOLATION property=%s replay=%s" % (prop, path))
        return 1
    C.log("replay %s: the recorded case is now consistent with the specification" % path)
    return 0
