"""Generic pipeline for the self-contained machines (C08 C09 C10 C13 C14 C15 C17 C18 C19 C20):
  1. TLC exhausts spec/<M>_MC for the tier's constants (invariants = the property on the model) and exports cases,
  2. the harness driver replays every case against the real code and records a trace,
  3. TLC validates the trace with spec/<M>_Trace (which re-uses <M>'s actions / operators),
  4. a rejected trace is localised, replayed in isolation, and reported (VIOLATION / KNOWN-FINDING)."""
import json
import os
import re
import time
from concurrent.futures import ThreadPoolExecutor

from . import common as C


def split_at_calls(path, wd, max_events=20000, tag="c"):
    chunks, cur, idx = [], [], 0

    def flush():
        nonlocal cur, idx
        if cur:
            p = os.path.join(wd, "%s%04d.ndjson" % (tag, idx))
            with open(p, "w") as f:
                f.writelines(cur)
            chunks.append((p, len(cur)))
            idx += 1
            cur = []

    with open(path) as f:
        for line in f:
            if '"ev":"Call"' in line and len(cur) >= max_events:
                flush()
            cur.append(line)
    flush()
    return chunks


def validate(module, spec, chunk, consts_text, wd, heap="3g", hwm=False, timeout=3600):
    cfg = "CONSTANTS\n" + consts_text + '  TraceFile = "%s"\n' % chunk
    cfg += "SPECIFICATION %s\nPOSTCONDITION TraceAccepted\nCHECK_DEADLOCK FALSE\n" % spec
    sub = os.path.join(wd, "v-%s-%s-%d" % (os.path.basename(chunk), module, time.time_ns() % 1000000))
    os.makedirs(sub, exist_ok=True)
    return C.run_tlc(module, cfg, workdir=sub, workers=1, timeout=timeout, heap=heap)


def unconsumed_index(r):
    m = re.search(r'"HWM", (\d+)', r.out)
    if m:
        return int(m.group(1))
    return r.depth or None


def call_block(chunk, idx):
    lines = open(chunk).read().splitlines()
    j = min(idx - 1, len(lines) - 1)
    while j >= 0 and '"ev":"Call"' not in lines[j]:
        j -= 1
    k = j + 1
    while k < len(lines) and '"ev":"Call"' not in lines[k]:
        k += 1
    return [json.loads(x) for x in lines[j:k]], j, k


def run(prop, tier, *, mc_module, mc_cfg, driver, trace_module, trace_spec="TSpec", trace_consts="", key_fn, case_fn=None,
        level="model_checking", assumptions=(), extra_cov=None, harness_extra=(), mc_workers=1, required_actions=(), race=False,
        max_events=20000, post_harness=None, harness_env=None, rule="", part=False):
    t0 = time.time()
    wd = C.scratch("verif-%s-" % prop)
    binary = C.build_harness(race=race)
    r = C.run_tlc(mc_module, mc_cfg, workers=mc_workers, timeout=7200, want_cases=True, coverage=(tier == "quick"), heap="12g")
    C.tlc_must_pass(r, "%s model check for %s" % (mc_module, prop))
    zero = [a for a in r.coverage_zero if a in required_actions]
    if zero:
        raise C.Infra("vacuity gate: actions never taken in the model: %s" % zero)
    cases = r.cases
    if case_fn:
        cases = case_fn(cases, tier)
    for i, c in enumerate(cases):
        c["id"] = i + 1
    if not cases:
        raise C.Infra("no cases exported by %s" % mc_module)
    cp = os.path.join(wd, "cases.jsonl")
    with open(cp, "w") as f:
        for c in cases:
            f.write(json.dumps(c) + "\n")
    C.log("[%s] model %s: %d states generated, %d distinct, depth %d; %d cases (%.1fs)" % (prop, mc_module, r.generated, r.distinct, r.depth, len(cases), time.time() - t0))
    t1 = time.time()
    trace = os.path.join(wd, "trace.ndjson")
    summ = C.run_harness(binary, driver, cp, trace, os.path.join(wd, "summary.json"), tier, extra=harness_extra, env=harness_env)
    C.log("[%s] harness %s: %d runs, %d events, %s (%.1fs)" % (prop, driver, summ["runs"], summ["events"], summ["counts"], time.time() - t1))
    notes = list(summ.get("notes") or [])
    if post_harness:
        post_harness(wd, summ)
    # cases listed in known-findings.txt are judged separately (one representative per key is re-validated and must still be
    # rejected); the remaining trace must be accepted in full, so a different violation of the same property is still reported
    findings, _ = C.load_findings()
    known_keys = {k for p, k, _ in findings if p == prop}
    violations = []
    if known_keys:
        main_lines, blocks, cur = [], {}, []

        def close(block):
            if not block:
                return
            evs_b = [json.loads(x) for x in block]
            k = key_fn(evs_b[0], evs_b)
            if k in known_keys:
                blocks.setdefault(k, []).append(block)
            else:
                main_lines.extend(block)
        for line in open(trace):
            if '"ev":"Call"' in line:
                close(cur)
                cur = []
            cur.append(line)
        close(cur)
        with open(trace, "w") as f:
            f.writelines(main_lines)
        for k in sorted(blocks):
            kp = os.path.join(wd, "known-%d.ndjson" % (abs(hash(k)) % 10**8))
            with open(kp, "w") as f:
                f.writelines(blocks[k][0])
            kr = validate(trace_module, trace_spec, kp, trace_consts, wd)
            if kr.ok:
                C.log("NOTE [%s] listed finding %s no longer manifests on this tree (%d cases accepted)" % (prop, k, len(blocks[k])))
            elif kr.postcondition_false:
                evs_b = [json.loads(x) for x in blocks[k][0]]
                rp = C.write_replay(prop, "known-%s" % re.sub(r"[^A-Za-z0-9]+", "-", k)[:60], dict(property=prop, seed=C.seed(), tier=tier, case=evs_b[0].get("input"), observed=evs_b, key=k))
                violations.append(dict(key=k, replay=rp, text="known finding, %d cases" % len(blocks[k])))
            else:
                raise C.Infra("trace validation failed on known-finding case %s:\n%s" % (k, kr.out[-2000:]))
    n_known = len(violations)
    chunks = split_at_calls(trace, wd, max_events=max_events)
    with ThreadPoolExecutor(max_workers=8) as ex:
        results = list(ex.map(lambda pn: (pn, validate(trace_module, trace_spec, pn[0], trace_consts, wd)), chunks))
    unreproduced = []
    for (chunk, n), vr in results:
        cur_chunk, cur = chunk, vr
        rounds = 0
        unrep_here = 0
        while not cur.ok:
            if len(violations) - n_known >= C.MAX_VIOLATIONS:      # listed findings do not use up the budget of witnesses
                C.log("[%s] %d witnesses reported; further rejected traces are not enumerated" % (prop, len(violations) - n_known))
                break
            if not cur.postcondition_false:
                raise C.Infra("trace validation failed on %s:\n%s" % (cur_chunk, cur.out[-3000:]))
            idx = unconsumed_index(cur)
            if not idx:
                raise C.Infra("cannot localise rejected event in %s" % cur_chunk)
            evs, j, k = call_block(cur_chunk, idx)
            call = evs[0]
            key = key_fn(call, evs)
            replay = C.write_replay(prop, "%s" % call.get("case"), dict(property=prop, seed=C.seed(), tier=tier, case=call.get("input"), call=call, observed=evs, key=key,
                                                                        rejected_event=evs[min(idx - 1 - j, len(evs) - 1)]))
            if reproduce(prop, replay, binary, wd, driver, trace_module, trace_spec, trace_consts, tier, harness_extra, harness_env):
                violations.append(dict(key=key, replay=replay, text="rejected event: %s" % json.dumps(evs[min(idx - 1 - j, len(evs) - 1)])[:300]))
            else:
                # e.g. state left behind by earlier cases in the same process: keep looking for a case that fails on its own
                # (at most 4 such per chunk and 40 in all, so that later chunks are still looked at)
                unreproduced.append(replay)
                unrep_here += 1
                if unrep_here >= 4 or len(unreproduced) >= 40:
                    break
            rounds += 1
            rest = open(cur_chunk).read().splitlines(keepends=True)[k:]
            if not rest:
                break
            nxt = os.path.join(wd, "rest-%s-%d.ndjson" % (os.path.basename(chunk), rounds))
            with open(nxt, "w") as f:
                f.writelines(rest)
            cur_chunk, cur = nxt, validate(trace_module, trace_spec, nxt, trace_consts, wd)
    if unreproduced and not violations and not part:
        raise C.Infra("%d rejected traces, none of which reproduced in isolation (first: %s)" % (len(unreproduced), unreproduced[0]))
    code = 0 if part else C.settle(prop, violations)
    cov_unreproduced = list(unreproduced) if part else []
    cov = {
        "states": r.distinct, "transitions": r.generated,
        "traces_validated_against_impl": summ["runs"],
        "events_validated": summ["events"],
        "cases": len(cases),
        "exhaustive": True,
        "counts": summ["counts"],
        "samples": summ["samples"][:5],
        "rule": rule or "every terminal case of the model-checked specification is replayed against the real code; the recorded trace must be a behaviour of the trace specification",
        "model_cfg": mc_cfg.strip().splitlines(),
    }
    if cov_unreproduced:
        cov["unreproduced"] = cov_unreproduced
    if notes:
        cov["notes"] = notes
        for nn in notes:
            C.log("NOTE [%s] %s" % (prop, nn))
    if extra_cov:
        cov.update(extra_cov(summ) if callable(extra_cov) else extra_cov)
    if part:
        cov["assumptions"] = list(assumptions)
        return 0, violations, cov
    C.write_evidence(prop, tier, level, cov, time.time() - t0, len(violations), list(assumptions))
    return code, violations, cov


def combine(prop, tier, parts, t0, level="model_checking"):
    """parts: list of (name, violations, cov) from run(..., part=True). Settles once and writes one evidence file."""
    violations, assumptions = [], []
    cov = {"states": 0, "transitions": 0, "traces_validated_against_impl": 0, "events_validated": 0, "samples": [], "parts": {}, "exhaustive": True}
    for name, v, c in parts:
        violations += v
        for k in ("states", "transitions", "traces_validated_against_impl", "events_validated"):
            cov[k] += c.get(k, 0)
        cov["samples"] += c.get("samples", [])[:2]
        for a in c.pop("assumptions", []):
            if a not in assumptions:
                assumptions.append(a)
        cov["parts"][name] = {k: c[k] for k in c if k not in ("samples",)}
    cov["rule"] = "; ".join("%s: %s" % (n, c.get("rule", "")) for n, _, c in parts)[:1500]
    unrep = [u for _, _, c in parts for u in c.get("unreproduced", [])]
    if unrep and not violations:
        # rejections that reproduce neither alone nor after their predecessors, and no part that explains them: not a verdict
        raise C.Infra("%d rejected traces, none of which reproduced in isolation (first: %s)" % (len(unrep), unrep[0]))
    if unrep:
        C.log("NOTE [%s] %d further rejected traces did not reproduce on their own (e.g. %s); the reproduced violations above stand" % (prop, len(unrep), unrep[0]))
    code = C.settle(prop, violations)
    C.write_evidence(prop, tier, level, cov, time.time() - t0, len(violations), assumptions)
    return code


def reproduce(prop, replay_path, binary, wd, driver, trace_module, trace_spec, trace_consts, tier, harness_extra=(), harness_env=None):
    rp = json.load(open(replay_path))
    sub = os.path.join(wd, "repro-%d" % (time.time_ns() % 10000000))
    os.makedirs(sub, exist_ok=True)
    cp = os.path.join(sub, "case.jsonl")
    with open(cp, "w") as f:
        f.write(json.dumps(rp["case"]) + "\n")
    tr = os.path.join(sub, "trace.ndjson")
    C.run_harness(binary, driver, cp, tr, os.path.join(sub, "s.json"), rp.get("tier", tier), extra=harness_extra, env=harness_env)
    vr = validate(trace_module, trace_spec, tr, trace_consts, sub)
    if vr.ok:
        return False
    if not vr.postcondition_false:
        raise C.Infra("trace validation failed during reproduction:\n%s" % vr.out[-2000:])
    return True


def replay(prop, path, *, driver, trace_module, trace_spec="TSpec", trace_consts="", harness_extra=(), race=False, harness_env=None):
    binary = C.build_harness(race=race)
    wd = C.scratch("verif-replay-")
    if reproduce(prop, path, binary, wd, driver, trace_module, trace_spec, trace_consts, "quick", harness_extra, harness_env):
        C.log("VIOLATION property=%s replay=%s" % (prop, path))
        return 1
    C.log("replay %s: the recorded case is now consistent with the specification" % path)
    return 0
