"""Shared machinery of /verif/bin/check: scratch dirs, harness build, TLC runs, evidence, findings."""
import atexit
import json
import os
import re
import shutil
import subprocess
import sys
import tempfile
import time

VERIF = os.path.dirname(os.path.dirname(os.path.dirname(os.path.abspath(__file__))))
REPO = os.environ.get("VERIF_REPO", "/repo")
SPEC = os.path.join(VERIF, "spec")
HARNESS_SRC = os.path.join(VERIF, "harness")
ALT = REPO != "/repo"          # VERIF_REPO=<dir>: check another tree (a scratch worktree with a seeded change); outputs go to VERIF_OUT
_OUT = os.environ.get("VERIF_OUT", os.path.join("/tmp", "verif-alt-" + re.sub(r"[^A-Za-z0-9]+", "_", REPO))) if ALT else VERIF
BUILD = os.path.join(_OUT, "build")
EVIDENCE = os.path.join(_OUT, "evidence")
REPLAYS = os.path.join(_OUT, "replays")
FINDINGS = os.path.join(VERIF, "known-findings.txt")
TLA_CP = "/opt/veriftools/tla/tla2tools.jar:/opt/veriftools/tla/CommunityModules-deps.jar"

GOENV = dict(os.environ, GOFLAGS="-mod=mod", GOPROXY="off", GOSUMDB="off", GOTOOLCHAIN="local", CGO_ENABLED=os.environ.get("CGO_ENABLED", "0"))


MAX_VIOLATIONS = int(os.environ.get("VERIF_MAX_VIOLATIONS", "6"))   # witnesses reported per run (each is reproduced in isolation)


class Infra(Exception):
    """Infrastructure failure: exit 2, never a violation."""


_scratch = []


def scratch(prefix="verif-"):
    d = tempfile.mkdtemp(prefix=prefix)
    _scratch.append(d)
    return d


def _cleanup():
    if os.environ.get("VERIF_KEEP"):
        log("scratch kept:", _scratch)
        return
    for d in _scratch:
        shutil.rmtree(d, ignore_errors=True)


atexit.register(_cleanup)


def log(*a):
    print(*a, flush=True)


def seed():
    try:
        return int(os.environ.get("VERIF_SEED", "1"))
    except ValueError:
        return 1


def build_harness(race=False):
    """Rebuild the harness against /repo's current working tree (build tag verif)."""
    os.makedirs(BUILD, exist_ok=True)
    out = os.path.join(BUILD, "harness-race" if race else "harness")
    env = dict(GOENV)
    cmd = ["go", "build", "-tags", "verif", "-o", out]
    if race:
        env["CGO_ENABLED"] = "1"
        cmd.insert(2, "-race")
    if ALT:
        mod = os.path.join(BUILD, "alt.mod")
        with open(os.path.join(HARNESS_SRC, "go.mod")) as f, open(mod, "w") as g:
            g.write(f.read().replace("=> /repo", "=> " + REPO))
        shutil.copyfile(os.path.join(REPO, "go.sum"), os.path.join(BUILD, "alt.sum"))
        cmd.insert(2, "-modfile=" + mod)
    else:
        # go.sum must cover the repo's dependencies
        shutil.copyfile(os.path.join(REPO, "go.sum"), os.path.join(HARNESS_SRC, "go.sum"))
    cmd.append(".")
    p = subprocess.run(cmd, cwd=HARNESS_SRC, env=env, capture_output=True, text=True)
    if p.returncode != 0:
        raise Infra("harness build failed (the tree under /repo must compile):\n" + p.stdout + p.stderr)
    return out


def run_harness(binary, driver, cases, out, summary, tier, extra=(), timeout=3600, env=None):
    cmd = [binary, driver, "-cases", cases, "-out", out, "-summary", summary, "-seed", str(seed()), "-tier", tier] + list(extra)
    p = subprocess.run(cmd, capture_output=True, text=True, timeout=timeout, env=env)
    with open(summary + ".stderr", "w") as f:
        f.write(p.stderr)
    if p.returncode != 0:
        raise Infra("harness %s failed (exit %d):\n%s\n%s" % (driver, p.returncode, p.stdout[-4000:], p.stderr[-4000:]))
    with open(summary) as f:
        return json.load(f)


class TlcResult:
    def __init__(self):
        self.ok = False
        self.generated = 0
        self.distinct = 0
        self.depth = 0
        self.cases = []
        self.error = ""
        self.out = ""
        self.violated = None
        self.postcondition_false = False
        self.wall = 0.0
        self.coverage_zero = []


def run_tlc(module, cfg_text, workdir=None, workers=8, timeout=1800, extra=(), coverage=False, want_cases=False, heap="6g", deque=False):
    """Run TLC on spec/<module>.tla with the given cfg text in a scratch copy of spec/."""
    wd = workdir or scratch("verif-tlc-")
    for f in os.listdir(SPEC):
        if f.endswith(".tla"):
            shutil.copyfile(os.path.join(SPEC, f), os.path.join(wd, f))
    cfg = os.path.join(wd, module + "_run.cfg")
    with open(cfg, "w") as f:
        f.write(cfg_text)
    meta = os.path.join(wd, "meta-" + module + "-" + str(os.getpid()) + "-" + str(time.time_ns()))
    jtmp = os.path.join(wd, "jtmp")
    os.makedirs(jtmp, exist_ok=True)
    java = ["java", "-XX:+UseParallelGC", "-Xmx" + heap, "-Xss256m", "-Djava.io.tmpdir=" + jtmp]
    if deque:
        java.append("-Dtlc2.tool.queue.IStateQueue=StateDeque")
    cmd = java + ["-cp", TLA_CP, "tlc2.TLC", "-config", cfg, "-workers", str(workers), "-metadir", meta, "-noGenerateSpecTE"]
    if coverage:
        cmd += ["-coverage", "1"]
    cmd += list(extra) + [module + ".tla"]
    t0 = time.time()
    try:
        p = subprocess.run(cmd, cwd=wd, capture_output=True, text=True, timeout=timeout)
    except subprocess.TimeoutExpired:
        subprocess.run(["pkill", "-f", meta], check=False)
        raise Infra("TLC timed out on %s after %ds" % (module, timeout))
    r = TlcResult()
    r.wall = time.time() - t0
    r.out = p.stdout + p.stderr
    m = re.search(r"(\d+) states generated, (\d+) distinct states found", r.out)
    if m:
        r.generated, r.distinct = int(m.group(1)), int(m.group(2))
    m = re.search(r"depth of the complete state graph search is (\d+)", r.out)
    if m:
        r.depth = int(m.group(1))
    if want_cases:
        for line in p.stdout.splitlines():
            if line.startswith('<<"CASE", '):
                js = line[len('<<"CASE", '):-2]
                r.cases.append(json.loads(json.loads(js)))
    m = re.search(r"Invariant (\w+) is violated", r.out)
    if m:
        r.violated = m.group(1)
    m = re.search(r"Action property (\w+) is violated|Temporal properties were violated", r.out)
    if m and not r.violated:
        r.violated = m.group(1) or "temporal"
    if re.search(r"Postcondition .*is false", r.out) and "is not a legal state" not in r.out and "Error: Evaluating" not in r.out:
        r.postcondition_false = True
    if coverage:
        last = r.out.rfind("The coverage statistics at")
        for line in (r.out[last:] if last >= 0 else r.out).splitlines():
            mm = re.match(r"<(\w+) line .*>: (\d+):(\d+)$", line.strip())
            if mm and int(mm.group(2)) == 0 and int(mm.group(3)) == 0:
                r.coverage_zero.append(mm.group(1))
    clean = "Model checking completed. No error has been found." in r.out
    r.ok = clean and p.returncode == 0
    if not r.ok and not r.violated and not r.postcondition_false:
        r.error = r.out[-3000:]
    shutil.rmtree(meta, ignore_errors=True)
    return r


def tlc_must_pass(r, what):
    if r.violated:
        raise Infra("%s: TLC reports %s violated on the model (specification error, not a code verdict)\n%s" % (what, r.violated, r.out[-3000:]))
    if not r.ok:
        raise Infra("%s: TLC failed\n%s" % (what, r.out[-3000:]))


# ------------------------------------------------------------------------------------------
# known findings


def load_findings():
    """Returns (findings, fixed): findings = list of (property, key, text)."""
    findings, fixed = [], []
    if not os.path.exists(FINDINGS):
        return findings, fixed
    for line in open(FINDINGS):
        line = line.strip()
        if not line or line.startswith("#"):
            continue
        m = re.match(r"finding: property=(\S+) key=(\S+) (.*)$", line)
        if m:
            findings.append((m.group(1), m.group(2), m.group(3)))
            continue
        m = re.match(r"fixed: property=(\S+) (\S+) (.*)$", line)
        if m:
            fixed.append((m.group(1), m.group(2), m.group(3)))
    return findings, fixed


def settle(prop, violations):
    """violations: list of dict(key=..., replay=..., text=...). Prints VIOLATION / KNOWN-FINDING lines; returns exit code."""
    findings, _ = load_findings()
    known = {(p, k): t for p, k, t in findings}
    printed = set()
    unknown = 0
    for v in violations:
        kk = (prop, v["key"])
        if kk in known:
            if kk not in printed:
                log("KNOWN-FINDING: property=%s %s [%s]" % (prop, known[kk], v["key"]))
                printed.add(kk)
        else:
            unknown += 1
            log("VIOLATION property=%s replay=%s" % (prop, v["replay"]))
            log("  witness: %s -- %s" % (v["key"], v.get("text", "")))
    # listed findings that did not show up are still announced (the file is the record), as long as the check looked for them
    return 1 if unknown else 0


def write_replay(prop, name, payload):
    os.makedirs(REPLAYS, exist_ok=True)
    path = os.path.join(REPLAYS, "%s-%s.json" % (prop, name))
    with open(path, "w") as f:
        json.dump(payload, f, indent=1, sort_keys=True)
    return path


def write_evidence(prop, tier, level, coverage, wall, violations, assumptions):
    os.makedirs(EVIDENCE, exist_ok=True)
    ev = {
        "property_id": prop,
        "tier": tier,
        "seed": seed(),
        "level": level,
        "coverage": coverage,
        "assumptions": assumptions,
        "wall_s": round(wall, 2),
        "violations": violations,
    }
    tmp = os.path.join(EVIDENCE, prop + ".json.tmp")
    with open(tmp, "w") as f:
        json.dump(ev, f, indent=1, sort_keys=True)
    os.replace(tmp, os.path.join(EVIDENCE, prop + ".json"))


def run_apalache(module, args, timeout=900):
    """Run apalache-mc check on spec/<module>.tla in a scratch directory; returns True iff the outcome is NoError."""
    wd = scratch("verif-apalache-")
    shutil.copyfile(os.path.join(SPEC, module + ".tla"), os.path.join(wd, module + ".tla"))
    env = dict(os.environ, JVM_ARGS="-Xmx4g -Djava.io.tmpdir=" + wd)
    try:
        p = subprocess.run(["apalache-mc", "check", "--out-dir=" + os.path.join(wd, "out")] + list(args) + [module + ".tla"], cwd=wd, env=env,
                           capture_output=True, text=True, timeout=timeout)
    except (subprocess.TimeoutExpired, FileNotFoundError) as e:
        raise Infra("apalache-mc failed to run on %s: %s" % (module, e))
    out = p.stdout + p.stderr
    if "The outcome is: NoError" in out and p.returncode == 0:
        return True
    raise Infra("apalache-mc on %s %s did not report NoError (a specification problem, not a code verdict):\n%s" % (module, " ".join(args), out[-2000:]))
