#!/usr/bin/env python3
"""Writes /verif/MANIFEST.json from the property table (single source of truth for commands)."""
import json
import os
import sys

sys.path.insert(0, os.path.dirname(os.path.abspath(__file__)))
from lib import manifest_data as M  # noqa: E402

checks = []
for pid in sorted(M.CHECKS):
    c = M.CHECKS[pid]
    checks.append({
        "property_id": pid,
        "quick_cmd": "bin/check %s quick" % pid,
        "thorough_cmd": "bin/check %s thorough" % pid,
        "evidence_file": "/verif/evidence/%s.json" % pid,
        "replay_cmd_template": "bin/check %s --replay {path}" % pid,
        "engine": c["engine"],
        "level_claimed": {"category": c.get("category", "model_checking"), "text": c["text"], "design_ref": c["design_ref"]},
        "level_note": c["note"],
        "technique": c["technique"],
    })
m = {
    "version": 1,
    "setup_cmd": "bin/setup",
    "hooks": {
        "guard": "verif",
        "enable": "go build -tags verif (every harness build passes the tag; no hook is currently needed: all observation points are injected interfaces, return values, caller-owned memory or exit codes)",
        "baseline_off_cmd": "cd /repo && GOFLAGS=-mod=mod GOPROXY=off GOSUMDB=off GOTOOLCHAIN=local go test -vet=off -count=1 ./...",
        "source_commits": [],
        "add_only": True,
    },
    "engines": M.ENGINES,
    "checks": checks,
    "notes": M.NOTES,
    "not_applicable": M.NOT_APPLICABLE,
}
with open(os.path.join(os.path.dirname(os.path.dirname(os.path.abspath(__file__))), "MANIFEST.json"), "w") as f:
    json.dump(m, f, indent=1)
print("MANIFEST.json: %d checks, %d not applicable" % (len(checks), len(M.NOT_APPLICABLE)))
