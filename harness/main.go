// Command harness realises abstract cases exported by TLC, drives the real go-tdx-guest code and
// writes ndjson traces for TLC to judge. Usage: harness <driver> -cases f -out f [-seed n] [flags].
package main

import (
	"encoding/json"
	"flag"
	"fmt"
	"os"
	"runtime"

	"verifharness/drv"
)

func main() {
	if len(os.Args) < 2 {
		fmt.Fprintln(os.Stderr, "usage: harness <driver> [flags]")
		os.Exit(2)
	}
	name := os.Args[1]
	fs := flag.NewFlagSet(name, flag.ExitOnError)
	cases := fs.String("cases", "", "case file (JSON lines)")
	out := fs.String("out", "", "trace output (ndjson)")
	summary := fs.String("summary", "", "summary output (JSON)")
	seed := fs.Int64("seed", 1, "seed for all random fillings")
	workers := fs.Int("workers", runtime.NumCPU(), "parallel workers")
	tier := fs.String("tier", "quick", "quick|thorough")
	arg := fs.String("arg", "", "driver-specific argument")
	fs.Parse(os.Args[2:])

	d, ok := drv.Drivers[name]
	if !ok {
		fmt.Fprintf(os.Stderr, "unknown driver %q\n", name)
		os.Exit(2)
	}
	env := drv.Env{Cases: *cases, Out: *out, Seed: *seed, Workers: *workers, Tier: *tier, Arg: *arg}
	defer func() {
		if r := recover(); r != nil {
			fmt.Fprintf(os.Stderr, "HARNESS FAILURE: %v\n", r)
			os.Exit(2)
		}
	}()
	sum, err := d(env)
	if err != nil {
		fmt.Fprintf(os.Stderr, "HARNESS FAILURE: %v\n", err)
		os.Exit(2)
	}
	if *summary != "" {
		b, _ := json.MarshalIndent(sum, "", " ")
		if err := os.WriteFile(*summary, b, 0o644); err != nil {
			fmt.Fprintf(os.Stderr, "HARNESS FAILURE: %v\n", err)
			os.Exit(2)
		}
	}
}
