// Package gen is the world generator ("concretiser") of the verification harness.
// It turns an abstract world (as enumerated by the TLA+ specifications under /verif/spec)
// into concrete artefacts: PKIs, PCK certificates with an SGX extension, v4 quotes,
// signed collateral, CRLs, scripted getters. It uses only the Go standard library and
// never calls into go-tdx-guest, so that nothing it produces depends on the code under test.
package gen

import (
	"encoding/asn1"
	"math/big"
)

// Minimal hand-written DER builder. Used for the SGX extension so that malformed
// variants (wrong types, wrong lengths, trailing bytes, any order) can be produced.

func derLen(n int) []byte {
	if n < 0x80 {
		return []byte{byte(n)}
	}
	var b []byte
	for m := n; m > 0; m >>= 8 {
		b = append([]byte{byte(m)}, b...)
	}
	return append([]byte{0x80 | byte(len(b))}, b...)
}

// TLV builds tag-length-value.
func TLV(tag byte, content []byte) []byte {
	out := []byte{tag}
	out = append(out, derLen(len(content))...)
	return append(out, content...)
}

// Seq builds a SEQUENCE of the concatenated elements.
func Seq(elems ...[]byte) []byte {
	var c []byte
	for _, e := range elems {
		c = append(c, e...)
	}
	return TLV(0x30, c)
}

// Octet builds an OCTET STRING.
func Octet(b []byte) []byte { return TLV(0x04, b) }

// Int builds an INTEGER (minimal two's complement).
func Int(v int64) []byte {
	b, _ := asn1.Marshal(big.NewInt(v))
	return b
}

// Enum builds an ENUMERATED.
func Enum(v int) []byte { return TLV(0x0a, []byte{byte(v)}) }

// Bool builds a BOOLEAN.
func Bool(v bool) []byte {
	if v {
		return TLV(0x01, []byte{0xff})
	}
	return TLV(0x01, []byte{0x00})
}

// UTF8 builds a UTF8String.
func UTF8(s string) []byte { return TLV(0x0c, []byte(s)) }

// Null builds NULL.
func Null() []byte { return []byte{0x05, 0x00} }

// OID builds an OBJECT IDENTIFIER.
func OID(arcs ...int) []byte {
	b, err := asn1.Marshal(asn1.ObjectIdentifier(arcs))
	if err != nil {
		panic(err)
	}
	return b
}
