package gen

import (
	"crypto/ecdsa"
	"encoding/hex"
	"encoding/json"
	"fmt"
	"net/url"
	"strings"
	"sync"
	"time"
)

// PCS endpoint URLs, transcribed from Intel's PCS API v4 documentation.
const (
	pcsTdxBase = "https://api.trustedservices.intel.com/tdx/certification/v4"
	pcsSgxBase = "https://api.trustedservices.intel.com/sgx/certification/v4"

	HdrTcbInfo = "Tcb-Info-Issuer-Chain"
	HdrQeID    = "Sgx-Enclave-Identity-Issuer-Chain"
	HdrPckCrl  = "Sgx-Pck-Crl-Issuer-Chain"
)

// TcbInfoURL is the expected TCB Info request for an FMSPC (lower-case hex).
func TcbInfoURL(fmspc string) string { return pcsTdxBase + "/tcb?fmspc=" + fmspc }

// QeIdentityURL is the expected QE identity request.
func QeIdentityURL() string { return pcsTdxBase + "/qe/identity" }

// PckCrlURL is the expected PCK CRL request for a CA ("platform" / "processor").
func PckCrlURL(ca string) string { return pcsSgxBase + "/pckcrl?ca=" + ca + "&encoding=der" }

// Statuses lists Intel's seven TCB statuses; UpToDate first.
var Statuses = []string{"UpToDate", "SWHardeningNeeded", "ConfigurationNeeded", "ConfigurationAndSWHardeningNeeded",
	"OutOfDate", "OutOfDateConfigurationNeeded", "Revoked"}

type jsComp struct {
	Svn int `json:"svn"`
}
type jsTcb struct {
	Sgx    []jsComp `json:"sgxtcbcomponents,omitempty"`
	Pcesvn *int     `json:"pcesvn,omitempty"`
	Tdx    []jsComp `json:"tdxtcbcomponents,omitempty"`
	Isvsvn *int     `json:"isvsvn,omitempty"`
}
type jsLevel struct {
	Tcb     jsTcb  `json:"tcb"`
	TcbDate string `json:"tcbDate"`
	Status  string `json:"tcbStatus"`
}
type jsModule struct {
	Mrsigner string `json:"mrsigner"`
	Attrs    string `json:"attributes"`
	Mask     string `json:"attributesMask"`
}
type jsModIdentity struct {
	ID       string    `json:"id"`
	Mrsigner string    `json:"mrsigner"`
	Attrs    string    `json:"attributes"`
	Mask     string    `json:"attributesMask"`
	Levels   []jsLevel `json:"tcbLevels"`
}
type jsTcbInfo struct {
	ID         string          `json:"id"`
	Version    int             `json:"version"`
	IssueDate  string          `json:"issueDate"`
	NextUpdate string          `json:"nextUpdate"`
	Fmspc      string          `json:"fmspc"`
	PceID      string          `json:"pceId"`
	TcbType    int             `json:"tcbType"`
	EvalNum    int             `json:"tcbEvaluationDataNumber"`
	Module     jsModule        `json:"tdxModule"`
	Identities []jsModIdentity `json:"tdxModuleIdentities,omitempty"`
	Levels     []jsLevel       `json:"tcbLevels"`
}
type jsQeIdentity struct {
	ID         string    `json:"id"`
	Version    int       `json:"version"`
	IssueDate  string    `json:"issueDate"`
	NextUpdate string    `json:"nextUpdate"`
	EvalNum    int       `json:"tcbEvaluationDataNumber"`
	Misc       string    `json:"miscselect"`
	MiscMask   string    `json:"miscselectMask"`
	Attrs      string    `json:"attributes"`
	AttrsMask  string    `json:"attributesMask"`
	Mrsigner   string    `json:"mrsigner"`
	IsvProdID  int       `json:"isvprodid"`
	Levels     []jsLevel `json:"tcbLevels"`
}

// PlatLevel is one platform TCB level.
type PlatLevel struct {
	Sgx    [16]int
	Pce    int
	Tdx    [16]int
	Status string
}

// ModLevel is one TDX-module or QE level.
type ModLevel struct {
	Isvsvn int
	Status string
}

// ModIdentity is one TDX module identity.
type ModIdentity struct {
	ID     string
	Levels []ModLevel
}

// TcbInfoSpec is the content of a TCB Info document.
type TcbInfoSpec struct {
	ID         string
	Version    int
	NextUpdate time.Time
	Fmspc      string
	PceID      string
	Mrsigner   string // hex
	Attrs      string // hex
	AttrsMask  string // hex
	Identities []ModIdentity
	Levels     []PlatLevel
}

// QeIdentitySpec is the content of a QE identity document.
type QeIdentitySpec struct {
	ID         string
	Version    int
	NextUpdate time.Time
	Misc       string
	MiscMask   string
	Attrs      string
	AttrsMask  string
	Mrsigner   string
	IsvProdID  int
	Levels     []ModLevel
}

func ts(t time.Time) string { return t.UTC().Format("2006-01-02T15:04:05Z") }

// levelDate gives the k-th listed level a date that is ordered neither like the list nor against it: the listed order of levels is
// what counts, whatever their dates say.
func levelDate(k int) string {
	off := []int{1, 5, 0, 7, 3, 9, 2, 8, 4, 6}[k%10]
	return ts(time.Date(2022, time.January, 1, 0, 0, 0, 0, time.UTC).AddDate(0, 2*off, k/10))
}

func modLevels(ls []ModLevel) []jsLevel {
	out := []jsLevel{}
	for k, l := range ls {
		v := l.Isvsvn
		out = append(out, jsLevel{Tcb: jsTcb{Isvsvn: &v}, TcbDate: levelDate(k), Status: l.Status})
	}
	return out
}

// Member marshals the tcbInfo member (the bytes that get signed).
func (s TcbInfoSpec) Member() []byte {
	j := jsTcbInfo{ID: s.ID, Version: s.Version, IssueDate: ts(s.NextUpdate.Add(-30 * 24 * time.Hour)), NextUpdate: ts(s.NextUpdate),
		Fmspc: s.Fmspc, PceID: s.PceID, EvalNum: 17, Module: jsModule{s.Mrsigner, s.Attrs, s.AttrsMask}, Levels: []jsLevel{}}
	for _, id := range s.Identities {
		j.Identities = append(j.Identities, jsModIdentity{ID: id.ID, Mrsigner: s.Mrsigner, Attrs: s.Attrs, Mask: s.AttrsMask, Levels: modLevels(id.Levels)})
	}
	for k, l := range s.Levels {
		jl := jsLevel{TcbDate: levelDate(k), Status: l.Status}
		p := l.Pce
		jl.Tcb.Pcesvn = &p
		for i := 0; i < 16; i++ {
			jl.Tcb.Sgx = append(jl.Tcb.Sgx, jsComp{l.Sgx[i]})
			jl.Tcb.Tdx = append(jl.Tcb.Tdx, jsComp{l.Tdx[i]})
		}
		j.Levels = append(j.Levels, jl)
	}
	b, err := json.Marshal(j)
	if err != nil {
		panic(err)
	}
	return b
}

// Member marshals the enclaveIdentity member.
func (s QeIdentitySpec) Member() []byte {
	j := jsQeIdentity{ID: s.ID, Version: s.Version, IssueDate: ts(s.NextUpdate.Add(-30 * 24 * time.Hour)), NextUpdate: ts(s.NextUpdate),
		EvalNum: 17, Misc: s.Misc, MiscMask: s.MiscMask, Attrs: s.Attrs, AttrsMask: s.AttrsMask, Mrsigner: s.Mrsigner,
		IsvProdID: s.IsvProdID, Levels: modLevels(s.Levels)}
	b, err := json.Marshal(j)
	if err != nil {
		panic(err)
	}
	return b
}

// NonCanonical re-spaces a compact JSON object so that it is not what json.Marshal would
// produce (a verifier that re-marshals before checking the signature must then fail): a space
// after every top-level comma and a leading space.
func NonCanonical(member []byte) []byte {
	// insert a space after the opening brace and before the closing brace: still valid JSON.
	s := string(member)
	return []byte("{ " + s[1:len(s)-1] + " }")
}

// Response is one scripted endpoint answer.
type Response struct {
	Header map[string][]string
	Body   []byte
	Err    error
}

// IssuerChainHeader builds the URL-escaped PEM chain header value.
func IssuerChainHeader(ders ...[]byte) string {
	var pemAll []byte
	for _, d := range ders {
		pemAll = append(pemAll, PEMCert(d)...)
	}
	return url.QueryEscape(string(pemAll))
}

// Wrap assembles a response body: members in the given order. Each member is (key, rawValue).
func Wrap(members [][2]string) []byte {
	var sb strings.Builder
	sb.WriteString("{")
	for i, m := range members {
		if i > 0 {
			sb.WriteString(", ")
		}
		sb.WriteString(fmt.Sprintf("%q:%s", m[0], m[1]))
	}
	sb.WriteString(" }")
	return []byte(sb.String())
}

// SigHex signs raw with key and returns the JSON string literal of the hex signature.
func SigHex(key *ecdsa.PrivateKey, raw []byte) string { return SigHexShape(key, raw, "") }

// SigHexShape: deterministic (a world is a function of its seed), optionally with a short scalar.
func SigHexShape(key *ecdsa.PrivateKey, raw []byte, shape string) string {
	return `"` + hex.EncodeToString(SignRSDetShape(key, raw, "doc", shape)) + `"`
}

// ---------------------------------------------------------------------------------------

// Getter is a scripted, recording trust.HTTPSGetter (structurally: Get(url) (header, body, err)).
type Getter struct {
	mu        sync.Mutex
	Responses map[string][]Response // per URL, consumed in order; last one repeats
	Default   *Response
	Log       []string
	counts    map[string]int
}

// NewGetter returns an empty scripted getter.
func NewGetter() *Getter {
	return &Getter{Responses: map[string][]Response{}, counts: map[string]int{}}
}

// Set installs the responses for a URL.
func (g *Getter) Set(u string, rs ...Response) { g.Responses[u] = rs }

// Get implements the getter interface and records the URL.
func (g *Getter) Get(u string) (map[string][]string, []byte, error) {
	g.mu.Lock()
	defer g.mu.Unlock()
	g.Log = append(g.Log, u)
	rs, ok := g.Responses[u]
	if !ok || len(rs) == 0 {
		if g.Default != nil {
			return g.Default.Header, g.Default.Body, g.Default.Err
		}
		return nil, nil, fmt.Errorf("scripted getter: no response for %s", u)
	}
	i := g.counts[u]
	if i >= len(rs) {
		i = len(rs) - 1
	}
	g.counts[u]++
	r := rs[i]
	return r.Header, r.Body, r.Err
}

// Reset clears the log and counters (for re-using one getter across calls).
func (g *Getter) Reset() {
	g.mu.Lock()
	defer g.mu.Unlock()
	g.Log = nil
	g.counts = map[string]int{}
}
