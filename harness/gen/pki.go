package gen

import (
	"crypto"
	"crypto/ecdsa"
	"crypto/elliptic"
	"crypto/rand"
	"crypto/sha1"
	"crypto/sha256"
	"crypto/x509"
	"crypto/x509/pkix"
	"encoding/asn1"
	"encoding/pem"
	"fmt"
	"io"
	"math/big"
	"time"
)

// Intel's subject common names, transcribed from Intel's PCK certificate and
// PCS API specifications (not from the code under test).
const (
	CNRoot      = "Intel SGX Root CA"
	CNPlatform  = "Intel SGX PCK Platform CA"
	CNProcessor = "Intel SGX PCK Processor CA"
	CNPck       = "Intel SGX PCK Certificate"
	CNTcbSign   = "Intel SGX TCB Signing"

	DefaultRootCrlURL = "https://certificates.trustedservices.intel.com/IntelSGXRootCA.der"
)

// SGX extension OIDs (Intel SGX PCK Certificate and CRL Profile Specification).
var (
	OidSgx    = []int{1, 2, 840, 113741, 1, 13, 1}
	OidPPID   = []int{1, 2, 840, 113741, 1, 13, 1, 1}
	OidTCB    = []int{1, 2, 840, 113741, 1, 13, 1, 2}
	OidPCEID  = []int{1, 2, 840, 113741, 1, 13, 1, 3}
	OidFMSPC  = []int{1, 2, 840, 113741, 1, 13, 1, 4}
	OidSGXTyp = []int{1, 2, 840, 113741, 1, 13, 1, 5}
)

// NewKey returns a fresh P-256 key.
func NewKey() *ecdsa.PrivateKey {
	k, err := ecdsa.GenerateKey(elliptic.P256(), rand.Reader)
	if err != nil {
		panic(err)
	}
	return k
}

// SignRS signs SHA-256(msg) and returns r||s, 32 bytes each, big endian.
func SignRS(k *ecdsa.PrivateKey, msg []byte) []byte {
	h := sha256.Sum256(msg)
	r, s, err := ecdsa.Sign(rand.Reader, k, h[:])
	if err != nil {
		panic(err)
	}
	out := make([]byte, 64)
	r.FillBytes(out[:32])
	s.FillBytes(out[32:])
	return out
}

// VerifyRS is the harness's own verifier used for self-checks.
func VerifyRS(pub *ecdsa.PublicKey, msg, sig []byte) bool {
	if len(sig) != 64 {
		return false
	}
	h := sha256.Sum256(msg)
	r := new(big.Int).SetBytes(sig[:32])
	s := new(big.Int).SetBytes(sig[32:])
	return ecdsa.Verify(pub, h[:], r, s)
}

// PubXY returns X||Y (64 bytes) of a public key.
func PubXY(pub *ecdsa.PublicKey) []byte {
	out := make([]byte, 64)
	pub.X.FillBytes(out[:32])
	pub.Y.FillBytes(out[32:])
	return out
}

func name(cn string) pkix.Name {
	return pkix.Name{
		CommonName:   cn,
		Organization: []string{"Intel Corporation"},
		Locality:     []string{"Santa Clara"},
		Province:     []string{"CA"},
		Country:      []string{"US"},
	}
}

func ski(pub *ecdsa.PublicKey) []byte {
	h := sha1.Sum(elliptic.Marshal(pub.Curve, pub.X, pub.Y))
	return h[:]
}

// CertSpec describes one certificate to issue.
type CertSpec struct {
	CN        string
	Serial    *big.Int
	NotBefore time.Time
	NotAfter  time.Time
	IsCA      bool
	CRLDP     []string
	SgxExt    []byte // value of the SGX extension; nil = none
	Pub       *ecdsa.PublicKey
	// Issuer: nil means self-signed with SignKey.
	Parent  *x509.Certificate
	SignKey *ecdsa.PrivateKey
	// DummyExt adds an unrelated non-critical extension (keeps the extension count when there is no SGX extension).
	DummyExt bool
	// SgxCritical marks the SGX extension critical; SKI overrides the subject key identifier (default: derived from Pub).
	SgxCritical bool
	SKI         []byte
	// EKU, if set, restricts the certificate to these extended key usages.
	EKU []x509.ExtKeyUsage
}

// Issue creates the certificate and returns it parsed, plus DER.
func Issue(s CertSpec) (*x509.Certificate, []byte) {
	tmpl := &x509.Certificate{
		SerialNumber:          s.Serial,
		Subject:               name(s.CN),
		NotBefore:             s.NotBefore,
		NotAfter:              s.NotAfter,
		BasicConstraintsValid: true,
		IsCA:                  s.IsCA,
		CRLDistributionPoints: s.CRLDP,
		SubjectKeyId:          ski(s.Pub),
	}
	if s.SKI != nil {
		tmpl.SubjectKeyId = s.SKI
	}
	tmpl.ExtKeyUsage = s.EKU
	if s.IsCA {
		tmpl.KeyUsage = x509.KeyUsageCertSign | x509.KeyUsageCRLSign
	} else {
		tmpl.KeyUsage = x509.KeyUsageDigitalSignature | x509.KeyUsageContentCommitment
	}
	if s.SgxExt != nil {
		tmpl.ExtraExtensions = []pkix.Extension{{Id: asn1.ObjectIdentifier(OidSgx), Critical: s.SgxCritical, Value: s.SgxExt}}
	}
	if s.DummyExt {
		tmpl.ExtraExtensions = append(tmpl.ExtraExtensions, pkix.Extension{Id: asn1.ObjectIdentifier{1, 2, 840, 113741, 1, 99}, Value: []byte{0x05, 0x00}})
	}
	parent := s.Parent
	if parent == nil {
		parent = tmpl
	}
	der, err := x509.CreateCertificate(rand.Reader, tmpl, parent, s.Pub, detSigner{s.SignKey})
	if err != nil {
		panic(fmt.Sprintf("CreateCertificate(%s): %v", s.CN, err))
	}
	c, err := x509.ParseCertificate(der)
	if err != nil {
		panic(err)
	}
	return c, der
}

// PEMCert encodes DER as a PEM block of the given type.
func PEMBlock(typ string, der []byte) []byte {
	return pem.EncodeToMemory(&pem.Block{Type: typ, Bytes: der})
}

// PEMCert encodes a certificate as PEM.
func PEMCert(der []byte) []byte { return PEMBlock("CERTIFICATE", der) }

// ---------------------------------------------------------------------------------------
// SGX extension

// SgxValues holds the values encoded in the SGX extension.
type SgxValues struct {
	PPID   []byte   // 16
	Comp   [16]int64 // component SVNs (0..255 when honest)
	PCESvn int64
	CPUSvn []byte // 16
	PCEID  []byte // 2
	FMSPC  []byte // 6
}

// ElemOctet builds SEQUENCE{OID, OCTET STRING}.
func ElemOctet(oid []int, v []byte) []byte { return Seq(OID(oid...), Octet(v)) }

// ElemInt builds SEQUENCE{OID, INTEGER}.
func ElemInt(oid []int, v int64) []byte { return Seq(OID(oid...), Int(v)) }

// TcbCompOID returns the OID of TCB element i (1..16 components, 17 PCESVN, 18 CPUSVN).
func TcbCompOID(i int) []int { return append(append([]int{}, OidTCB...), i) }

// TcbElems returns the 18 TCB elements in canonical order.
func TcbElems(v SgxValues) [][]byte {
	var out [][]byte
	for i := 0; i < 16; i++ {
		out = append(out, ElemInt(TcbCompOID(i+1), v.Comp[i]))
	}
	out = append(out, ElemInt(TcbCompOID(17), v.PCESvn))
	out = append(out, ElemOctet(TcbCompOID(18), v.CPUSvn))
	return out
}

// ElemTCB builds SEQUENCE{OID tcb, SEQUENCE{elems...}}.
func ElemTCB(elems [][]byte) []byte { return Seq(OID(OidTCB...), Seq(elems...)) }

// SgxTopElems returns the canonical top-level elements: PPID, TCB, PCEID, FMSPC, SGXType.
func SgxTopElems(v SgxValues) [][]byte {
	return [][]byte{
		ElemOctet(OidPPID, v.PPID),
		ElemTCB(TcbElems(v)),
		ElemOctet(OidPCEID, v.PCEID),
		ElemOctet(OidFMSPC, v.FMSPC),
		Seq(OID(OidSGXTyp...), Enum(1)),
	}
}

// SgxExt returns the extension value for canonical order.
func SgxExt(v SgxValues) []byte { return Seq(SgxTopElems(v)...) }

// SgxExtOrdered writes the 18 TCB elements and the top-level elements in another order: every element is found by its OID, so the
// values extracted are the same. order: "canon", "reversed", "interleaved" (odd components first).
func SgxExtOrdered(v SgxValues, order string) []byte {
	tcb := TcbElems(v)
	top := SgxTopElems(v)
	switch order {
	case "canon":
		return SgxExt(v)
	case "reversed":
		for i, j := 0, len(tcb)-1; i < j; i, j = i+1, j-1 {
			tcb[i], tcb[j] = tcb[j], tcb[i]
		}
	case "interleaved":
		var a, b [][]byte
		for i, e := range tcb {
			if i%2 == 0 {
				a = append(a, e)
			} else {
				b = append(b, e)
			}
		}
		tcb = append(b, a...)
	default:
		panic("bad sgx order " + order)
	}
	top[1] = ElemTCB(tcb)
	top[0], top[3] = top[3], top[0]
	return Seq(top...)
}

// ---------------------------------------------------------------------------------------
// PKI

// Entity is a key with its certificate.
type Entity struct {
	Key  *ecdsa.PrivateKey
	Cert *x509.Certificate
	DER  []byte
}

// PKI is one Intel-shaped hierarchy.
type PKI struct {
	Root    Entity
	Inter   Entity // PCK Platform (or Processor) CA
	TcbSign Entity
}

// PKIOpts parameterises NewPKI.
type PKIOpts struct {
	T0        time.Time
	InterCN   string
	RootCrlDP []string
	SerialBase int64
	Seed       int64  // non-zero: keys are derived from (Seed, Name + role) instead of fresh randomness
	Name       string
}

// Validity returns the default far-from-expiry window around t0.
func Validity(t0 time.Time) (time.Time, time.Time) {
	return t0.Add(-365 * 24 * time.Hour), t0.Add(365 * 24 * time.Hour)
}

// NewPKI builds root, intermediate and TCB signer.
func NewPKI(o PKIOpts) *PKI {
	nb, na := Validity(o.T0)
	if o.InterCN == "" {
		o.InterCN = CNPlatform
	}
	if o.RootCrlDP == nil {
		o.RootCrlDP = []string{DefaultRootCrlURL}
	}
	if o.SerialBase == 0 {
		o.SerialBase = 0x1000
	}
	p := &PKI{}
	mk := func(role string) *ecdsa.PrivateKey {
		if o.Seed != 0 {
			return NamedKey(o.Seed, o.Name+"."+role)
		}
		return NewKey()
	}
	p.Root.Key = mk("root")
	p.Root.Cert, p.Root.DER = Issue(CertSpec{CN: CNRoot, Serial: big.NewInt(o.SerialBase + 1), NotBefore: nb, NotAfter: na,
		IsCA: true, CRLDP: o.RootCrlDP, Pub: &p.Root.Key.PublicKey, SignKey: p.Root.Key})
	p.Inter.Key = mk("inter")
	p.Inter.Cert, p.Inter.DER = Issue(CertSpec{CN: o.InterCN, Serial: big.NewInt(o.SerialBase + 2), NotBefore: nb, NotAfter: na,
		IsCA: true, CRLDP: o.RootCrlDP, Pub: &p.Inter.Key.PublicKey, Parent: p.Root.Cert, SignKey: p.Root.Key})
	p.TcbSign.Key = mk("tcbsign")
	p.TcbSign.Cert, p.TcbSign.DER = Issue(CertSpec{CN: CNTcbSign, Serial: big.NewInt(o.SerialBase + 3), NotBefore: nb, NotAfter: na,
		CRLDP: o.RootCrlDP, Pub: &p.TcbSign.Key.PublicKey, Parent: p.Root.Cert, SignKey: p.Root.Key})
	return p
}

// Reissue re-issues a certificate for the same subject key and names with a new validity window
// (and optionally a new serial), signed by signKey under parent (nil parent = self-signed).
func Reissue(orig Entity, parent *x509.Certificate, signKey *ecdsa.PrivateKey, nb, na time.Time, serial *big.Int) Entity {
	if serial == nil {
		serial = orig.Cert.SerialNumber
	}
	var sgx []byte
	for _, e := range orig.Cert.Extensions {
		if e.Id.Equal(asn1.ObjectIdentifier(OidSgx)) {
			sgx = e.Value
		}
	}
	c, der := Issue(CertSpec{CN: orig.Cert.Subject.CommonName, Serial: serial, NotBefore: nb, NotAfter: na, IsCA: orig.Cert.IsCA,
		CRLDP: orig.Cert.CRLDistributionPoints, SgxExt: sgx, Pub: &orig.Key.PublicKey, Parent: parent, SignKey: signKey})
	return Entity{Key: orig.Key, Cert: c, DER: der}
}

// NewLeaf issues a PCK leaf certificate under the PKI's intermediate.
func (p *PKI) NewLeaf(cn string, serial *big.Int, sgx []byte, nb, na time.Time) Entity {
	return p.NewLeafKey(NewKey(), cn, serial, sgx, nb, na)
}

// NewLeafKey is NewLeaf for a given key.
func (p *PKI) NewLeafKey(k *ecdsa.PrivateKey, cn string, serial *big.Int, sgx []byte, nb, na time.Time) Entity {
	return p.NewLeafKeyCrit(k, cn, serial, sgx, nb, na, false)
}

// NewLeafKeyCrit: critical says whether the SGX extension is marked critical.
func (p *PKI) NewLeafKeyCrit(k *ecdsa.PrivateKey, cn string, serial *big.Int, sgx []byte, nb, na time.Time, critical bool) Entity {
	c, der := Issue(CertSpec{CN: cn, Serial: serial, NotBefore: nb, NotAfter: na, CRLDP: []string{"https://api.trustedservices.intel.com/sgx/certification/v4/pckcrl?ca=platform&encoding=der"},
		SgxExt: sgx, SgxCritical: critical, Pub: &k.PublicKey, Parent: p.Inter.Cert, SignKey: p.Inter.Key})
	return Entity{Key: k, Cert: c, DER: der}
}

// CRL builds a DER CRL signed by key under issuer cert.
func CRL(issuer *x509.Certificate, key *ecdsa.PrivateKey, revoked []*big.Int, thisUpdate, nextUpdate time.Time) []byte {
	return CRLReason(issuer, key, revoked, 0, thisUpdate, nextUpdate)
}

// CRLReason: every entry carries the given reasonCode extension (0 = none). A listed serial is revoked whatever reason the entry states.
func CRLReason(issuer *x509.Certificate, key *ecdsa.PrivateKey, revoked []*big.Int, reason int, thisUpdate, nextUpdate time.Time) []byte {
	var rc []x509.RevocationListEntry
	for _, s := range revoked {
		rc = append(rc, x509.RevocationListEntry{SerialNumber: s, RevocationTime: thisUpdate, ReasonCode: reason})
	}
	der, err := x509.CreateRevocationList(rand.Reader, &x509.RevocationList{
		Number: big.NewInt(1), ThisUpdate: thisUpdate, NextUpdate: nextUpdate, RevokedCertificateEntries: rc,
	}, issuer, detSigner{key})
	if err != nil {
		panic(fmt.Sprintf("CreateRevocationList: %v", err))
	}
	return der
}

// ---------------------------------------------------------------------------------------
// Deterministic keys and signatures: two realisations with the same seed share every named key and the
// bytes of their deterministic signatures, so that a faulty world and its honest twin overlap in exactly
// the material that a stale cache or left-over state would confuse.

// NamedKey derives a P-256 key from (seed, name).
func NamedKey(seed int64, name string) *ecdsa.PrivateKey {
	h := sha256.Sum256([]byte(fmt.Sprintf("verif-key/%d/%s", seed, name)))
	n := elliptic.P256().Params().N
	d := new(big.Int).SetBytes(h[:])
	d.Mod(d, new(big.Int).Sub(n, big.NewInt(1)))
	d.Add(d, big.NewInt(1))
	k := &ecdsa.PrivateKey{D: d}
	k.Curve = elliptic.P256()
	k.X, k.Y = elliptic.P256().ScalarBaseMult(d.Bytes())
	return k
}

// SignRSDet signs SHA-256(msg) with a nonce derived from (key, msg, tag): same inputs, same 64 bytes.
func SignRSDet(k *ecdsa.PrivateKey, msg []byte, tag string) []byte {
	z := sha256.Sum256(msg)
	return signDigestDet(k, z[:], tag, "")
}

// SignRSDetShape is SignRSDet with a constraint on the raw scalars: "shortR" / "shortS" give a scalar whose first byte is zero and
// whose second byte has its top bit clear (its minimal DER INTEGER is a byte shorter than usual); anything else is unconstrained.
func SignRSDetShape(k *ecdsa.PrivateKey, msg []byte, tag, shape string) []byte {
	z := sha256.Sum256(msg)
	return signDigestDet(k, z[:], tag, shape)
}

// detSigner makes certificates and CRLs a function of their content: two realisations with one seed carry
// byte-identical chains, so anything remembered about a chain in one call is found again in the next.
type detSigner struct{ k *ecdsa.PrivateKey }

func (d detSigner) Public() crypto.PublicKey { return &d.k.PublicKey }
func (d detSigner) Sign(_ io.Reader, digest []byte, _ crypto.SignerOpts) ([]byte, error) {
	rs := signDigestDet(d.k, digest, "x509", "")
	return asn1.Marshal(struct{ R, S *big.Int }{new(big.Int).SetBytes(rs[:32]), new(big.Int).SetBytes(rs[32:])})
}

func signDigestDet(k *ecdsa.PrivateKey, z []byte, tag string, shape string) []byte {
	curve := elliptic.P256()
	n := curve.Params().N
	e := new(big.Int).SetBytes(z)
	for ctr := 0; ; ctr++ {
		hn := sha256.Sum256(append(append(k.D.Bytes(), z...), []byte(fmt.Sprintf("/%s/%d", tag, ctr))...))
		kk := new(big.Int).SetBytes(hn[:])
		kk.Mod(kk, new(big.Int).Sub(n, big.NewInt(1)))
		kk.Add(kk, big.NewInt(1))
		rx, _ := curve.ScalarBaseMult(kk.Bytes())
		r := new(big.Int).Mod(rx, n)
		if r.Sign() == 0 {
			continue
		}
		s := new(big.Int).Mul(r, k.D)
		s.Add(s, e)
		s.Mul(s, new(big.Int).ModInverse(kk, n))
		s.Mod(s, n)
		if s.Sign() == 0 {
			continue
		}
		out := make([]byte, 64)
		r.FillBytes(out[:32])
		s.FillBytes(out[32:])
		if (shape == "shortR" && !(out[0] == 0 && out[1] < 0x80)) || (shape == "shortS" && !(out[32] == 0 && out[33] < 0x80)) {
			continue
		}
		return out
	}
}

// StripCrlNumber re-issues a CRL without its cRLNumber extension (x509.CreateRevocationList always writes one; RFC 5280 demands it of
// conforming issuers, but a relying party meets what it meets): same issuer, entries, dates; signed again by key.
func StripCrlNumber(der []byte, key *ecdsa.PrivateKey) []byte {
	var cl pkix.CertificateList
	if rest, err := asn1.Unmarshal(der, &cl); err != nil || len(rest) != 0 {
		panic(fmt.Sprintf("StripCrlNumber: %v", err))
	}
	tbs := cl.TBSCertList
	var keep []pkix.Extension
	for _, e := range tbs.Extensions {
		if !e.Id.Equal(asn1.ObjectIdentifier{2, 5, 29, 20}) {
			keep = append(keep, e)
		}
	}
	tbs.Extensions = keep
	tbs.Raw = nil
	raw, err := asn1.Marshal(tbs)
	if err != nil {
		panic(err)
	}
	digest := sha256.Sum256(raw)
	sig, err := detSigner{key}.Sign(nil, digest[:], nil)
	if err != nil {
		panic(err)
	}
	tbs.Raw = raw
	out, err := asn1.Marshal(pkix.CertificateList{TBSCertList: tbs, SignatureAlgorithm: cl.SignatureAlgorithm, SignatureValue: asn1.BitString{Bytes: sig, BitLength: 8 * len(sig)}})
	if err != nil {
		panic(err)
	}
	if _, err := x509.ParseRevocationList(out); err != nil {
		panic(fmt.Sprintf("StripCrlNumber produced an unparsable CRL: %v", err))
	}
	return out
}
