package gen

import (
	"bytes"
	"crypto/ecdsa"
	"crypto/elliptic"
	"crypto/x509"
	"encoding/hex"
	"encoding/json"
	"encoding/pem"
	"fmt"
	"math/big"
	"net/url"
)

// SelfCheck re-derives the ground-truth facts of a concrete world from its artefacts with code
// that is independent of go-tdx-guest (standard library only) and compares them with what the
// abstract world demands. A disagreement is a generator bug and aborts the run (exit 2): it can
// never surface as a VIOLATION.
func SelfCheck(c *Concrete) error {
	w := c.W
	q := c.Q
	mut := w.Get("mut")
	in := func(v string, set ...string) bool {
		for _, s := range set {
			if v == s {
				return true
			}
		}
		return false
	}
	if !bytes.Equal(q.Bytes(), c.Raw) {
		return fmt.Errorf("raw bytes differ from quote fields")
	}
	// --- quote signature under the carried key
	x, y := new(big.Int).SetBytes(q.AK[:32]), new(big.Int).SetBytes(q.AK[32:])
	onCurve := elliptic.P256().IsOnCurve(x, y)
	if want := w.Get("ak") == "ok"; mut != "ak" && onCurve != want {
		return fmt.Errorf("attestation key on-curve=%v, world ak=%s", onCurve, w.Get("ak"))
	}
	sigOK := false
	if onCurve {
		sigOK = VerifyRS(&ecdsa.PublicKey{Curve: elliptic.P256(), X: x, Y: y}, append(append([]byte{}, q.Header...), q.Body...), q.Sig)
	}
	wantSig := w.Get("qsig") == "ok" && w.Get("ak") == "ok" && !in(mut, "header", "body", "ak", "sig")
	if sigOK != wantSig {
		return fmt.Errorf("quote signature verifies=%v, want %v", sigOK, wantSig)
	}
	// --- binding
	bindOK := bytes.Equal(FieldOf("qereport", "report_data", q.QEReport), BindingHash(q.AK, q.Auth))
	if !in(mut, "qeReport") {
		wantBind := w.Get("bind") == "ok" && !in(mut, "ak", "authData")
		if bindOK != wantBind {
			return fmt.Errorf("binding holds=%v, want %v", bindOK, wantBind)
		}
	}
	// --- QE report signature by the leaf key
	qeOK := VerifyRS(&c.Leaf.Key.PublicKey, q.QEReport, q.QESig)
	wantQe := w.Get("qeSigner") == "leaf" && !in(mut, "qeReport", "qeSig")
	if qeOK != wantQe {
		return fmt.Errorf("QE report signature by leaf verifies=%v, want %v", qeOK, wantQe)
	}
	// --- chain
	var blocks []*pem.Block
	rest := q.Chain
	for {
		var b *pem.Block
		b, rest = pem.Decode(rest)
		if b == nil {
			break
		}
		blocks = append(blocks, b)
	}
	wantBlocks := map[string]int{"n2": 2, "n3": 3, "n4": 4}[w.Get("nBlocks")]
	if len(blocks) != wantBlocks {
		return fmt.Errorf("chain has %d PEM blocks, want %d", len(blocks), wantBlocks)
	}
	leaf, err := x509.ParseCertificate(blocks[0].Bytes)
	if err != nil {
		return err
	}
	if len(leaf.Extensions) != 6 {
		return fmt.Errorf("leaf has %d extensions, want 6", len(leaf.Extensions))
	}
	inter, err := x509.ParseCertificate(blocks[1].Bytes)
	if err != nil {
		return err
	}
	leafFromInter := leaf.CheckSignatureFrom(inter) == nil
	wantLFI := w.Get("leafPki") == w.Get("interPki") && in(w.Get("leafRole"), "pck", "wrongCN", "cnUpper", "cnSpace", "cnKelvin") && w.Get("interSlot") == "inter"
	if w.Get("interSlot") == "root" { // the second block is the root: it signed the leaf iff the leaf was issued by that root directly
		wantLFI = !in(w.Get("leafRole"), "pck", "wrongCN", "cnUpper", "cnSpace", "cnKelvin") && w.Get("leafPki") == w.Get("rootPki")
	}
	if leafFromInter != wantLFI {
		return fmt.Errorf("leaf signed by embedded intermediate=%v, want %v", leafFromInter, wantLFI)
	}
	if len(blocks) >= 3 {
		root, err := x509.ParseCertificate(blocks[2].Bytes)
		if err != nil {
			return err
		}
		ifr := inter.CheckSignatureFrom(root) == nil
		if want := w.Get("interPki") == w.Get("rootPki") || w.Get("interSlot") == "root"; ifr != want {
			return fmt.Errorf("intermediate signed by embedded root=%v, want %v", ifr, want)
		}
	}
	// --- path to the pool (independent x509 verification at the PckCertChain clock)
	if c.Pool != nil && w.Get("time") == "none" {
		ip := x509.NewCertPool()
		ip.AddCert(inter)
		_, verr := leaf.Verify(x509.VerifyOptions{Roots: c.Pool, Intermediates: ip, CurrentTime: c.Clocks["PckCertChain"]})
		home := w.Get("leafPki")
		poolHas := map[string]bool{"A": in(w.Get("pool"), "A", "AB", "AI"), "B": in(w.Get("pool"), "B", "AB")}[home]
		wantPath := poolHas && (!in(w.Get("leafRole"), "pck", "wrongCN", "cnUpper", "cnSpace", "cnKelvin") || (w.Get("interPki") == home && w.Get("interSlot") == "inter"))
		if w.Get("pool") == "AI" && home == "A" && in(w.Get("leafRole"), "pck", "wrongCN", "cnUpper", "cnSpace", "cnKelvin") {
			wantPath = true // the pool itself holds the platform CA that issued the leaf, whatever the chain carries in its second block
		}
		if w.Get("leafExtCritical") == "yes" {
			wantPath = false // x509 refuses an unhandled critical extension
		}
		if (verr == nil) != wantPath {
			return fmt.Errorf("x509 path to pool ok=%v (%v), want %v", verr == nil, verr, wantPath)
		}
	}
	// --- collateral documents
	for _, d := range []struct {
		name, key, url, hdr, signer, over, alter, extra, hdrDim, meta string
	}{
		{"tcb", "tcbInfo", c.TcbURL, HdrTcbInfo, "tcbSigner", "tcbOver", "tcbAlter", "tcbExtra", "tcbHdr", "tcbMeta"},
		{"qe", "enclaveIdentity", c.QeURL, HdrQeID, "qeSignerDoc", "qeOver", "qeAlter", "qeExtra", "qeHdr", "qeMeta"},
	} {
		rs := c.Getter.Responses[d.url]
		if len(rs) != 1 {
			return fmt.Errorf("%s: %d scripted responses", d.name, len(rs))
		}
		r := rs[0]
		var m map[string]json.RawMessage
		if err := json.Unmarshal(r.Body, &m); err != nil {
			if w.Get(d.alter) == "memberBit" {
				continue // arbitrary bit flips may break the JSON; nothing further to derive
			}
			return fmt.Errorf("%s body is not JSON: %v", d.name, err)
		}
		if !in(w.Get(d.hdrDim), "ok", "duplicated", "threeCerts", "caseDuplicate") || w.Get(d.hdrDim) == "bitflip" || w.Get(d.meta) == "memberMissing" || w.Get(d.extra) == "dupAfter" {
			continue
		}
		hv := r.Header[d.hdr][0]
		un, err := url.QueryUnescape(hv)
		if err != nil {
			return err
		}
		blk, _ := pem.Decode([]byte(un))
		sc, err := x509.ParseCertificate(blk.Bytes)
		if err != nil {
			return err
		}
		if in(w.Get(d.alter), "sigMissing", "sigNull", "sigEmpty") { // there is no signature to check: the member must be absent / null / empty
			raw, present := m["signature"]
			if (w.Get(d.alter) == "sigMissing") == present || (present && w.Get(d.alter) == "sigNull" && string(raw) != "null") || (present && w.Get(d.alter) == "sigEmpty" && string(raw) != `""`) {
				return fmt.Errorf("%s: signature member is %q, want it %s", d.name, raw, w.Get(d.alter))
			}
			continue
		}
		var sigHex string
		if err := json.Unmarshal(m["signature"], &sigHex); err != nil {
			return err
		}
		sig, err := hex.DecodeString(sigHex)
		if err != nil {
			return err
		}
		ok := VerifyRS(sc.PublicKey.(*ecdsa.PublicKey), m[d.key], sig)
		want := w.Get(d.over) == "member" && w.Get(d.alter) == "none"
		if ok != want {
			return fmt.Errorf("%s: signature over exact member verifies=%v, want %v", d.name, ok, want)
		}
	}
	// --- CRLs (only when served as scripted)
	if w.Get("pckCrlFetch") == "ok" {
		crl, err := x509.ParseRevocationList(c.Getter.Responses[c.PckCrlURL][0].Body)
		if err != nil {
			return fmt.Errorf("PCK CRL unparsable: %v", err)
		}
		listed := false
		for _, e := range crl.RevokedCertificates {
			if e.SerialNumber.Cmp(leaf.SerialNumber) == 0 {
				listed = true
			}
		}
		if want := in(w.Get("pckCrlRev"), "leaf", "leafFirst", "leafAmongMany"); listed != want {
			return fmt.Errorf("leaf listed in PCK CRL=%v, want %v", listed, want)
		}
		byInter := crl.CheckSignatureFrom(inter) == nil
		if want := w.Get("pckCrlSigner") == "inter" && w.Get("interSlot") == "inter"; byInter != want && w.Get("interSlot") == "inter" {
			return fmt.Errorf("PCK CRL signed by embedded intermediate=%v, want %v", byInter, want)
		}
	}
	return nil
}
