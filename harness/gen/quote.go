package gen

import (
	"crypto/ecdsa"
	"crypto/sha256"
	"encoding/binary"
	"math/rand"
)

// Field is one entry of the v4 layout table: [Start,End) relative to its region.
type Field struct {
	Region string `json:"region"`
	Name   string `json:"name"`
	Start  int    `json:"start"`
	End    int    `json:"end"`
	Kind   string `json:"kind"` // bytes | u16 | u32
}

// Layout is the harness's own transcription of the Intel TDX DCAP v4 quote layout
// (Intel TDX DCAP Quoting Library API, appendix A.3/A.4). The same table is written in
// spec/QuoteWire.tla; the C09 check compares the two and refuses to run if they differ.
// Bytes 8..11 of the header are reserved in Intel's document; the repository names them
// pce_svn (8..10) and qe_svn (10..12) and that naming is recorded here (DESIGN C09).
var Layout = []Field{
	{"header", "version", 0, 2, "u16"},
	{"header", "att_key_type", 2, 4, "u16"},
	{"header", "tee_type", 4, 8, "u32"},
	{"header", "pce_svn", 8, 10, "bytes"},
	{"header", "qe_svn", 10, 12, "bytes"},
	{"header", "qe_vendor_id", 12, 28, "bytes"},
	{"header", "user_data", 28, 48, "bytes"},
	{"body", "tee_tcb_svn", 0, 16, "bytes"},
	{"body", "mr_seam", 16, 64, "bytes"},
	{"body", "mr_signer_seam", 64, 112, "bytes"},
	{"body", "seam_attributes", 112, 120, "bytes"},
	{"body", "td_attributes", 120, 128, "bytes"},
	{"body", "xfam", 128, 136, "bytes"},
	{"body", "mr_td", 136, 184, "bytes"},
	{"body", "mr_config_id", 184, 232, "bytes"},
	{"body", "mr_owner", 232, 280, "bytes"},
	{"body", "mr_owner_config", 280, 328, "bytes"},
	{"body", "rtmr0", 328, 376, "bytes"},
	{"body", "rtmr1", 376, 424, "bytes"},
	{"body", "rtmr2", 424, 472, "bytes"},
	{"body", "rtmr3", 472, 520, "bytes"},
	{"body", "report_data", 520, 584, "bytes"},
	{"qereport", "cpu_svn", 0, 16, "bytes"},
	{"qereport", "misc_select", 16, 20, "u32"},
	{"qereport", "reserved1", 20, 48, "bytes"},
	{"qereport", "attributes", 48, 64, "bytes"},
	{"qereport", "mr_enclave", 64, 96, "bytes"},
	{"qereport", "reserved2", 96, 128, "bytes"},
	{"qereport", "mr_signer", 128, 160, "bytes"},
	{"qereport", "reserved3", 160, 256, "bytes"},
	{"qereport", "isv_prod_id", 256, 258, "u16"},
	{"qereport", "isv_svn", 258, 260, "u16"},
	{"qereport", "reserved4", 260, 320, "bytes"},
	{"qereport", "report_data", 320, 384, "bytes"},
}

const (
	HeaderSize   = 48
	BodySize     = 584
	QEReportSize = 384
	SigSize      = 64
	KeySize      = 64
	// Offsets in the whole quote.
	OffBody        = 48
	OffSDSize      = 632
	OffSignedData  = 636
	OffSig         = 636
	OffAK          = 700
	OffCertType    = 764
	OffCertSize    = 766
	OffQEReport    = 770
	OffQESig       = 1154
	OffAuthSize    = 1218
	OffAuthData    = 1220
	MinQuoteSize   = 1020 // 0x3FC per Intel/ABI
	TeeTDX         = 0x81
	CertTypeQE     = 6
	CertTypePCK    = 5
)

// Quote is the field-level description of a v4 quote; Bytes() writes it.
type Quote struct {
	Header   []byte // 48
	Body     []byte // 584
	Sig      []byte // 64
	AK       []byte // 64
	QEReport []byte // 384
	QESig    []byte // 64
	Auth     []byte
	Chain    []byte
	Extra    []byte

	// Size/type overrides; nil means consistent with the actual lengths.
	SignedDataSize *uint32
	CertType       *uint16
	CertSize       *uint32
	AuthSize       *uint16
	PckType        *uint16
	PckSize        *uint32
}

func le16(v uint16) []byte { b := make([]byte, 2); binary.LittleEndian.PutUint16(b, v); return b }
func le32(v uint32) []byte { b := make([]byte, 4); binary.LittleEndian.PutUint32(b, v); return b }

// CertDataLen is the length of the QE-report certification data.
func (q *Quote) CertDataLen() int {
	return QEReportSize + SigSize + 2 + len(q.Auth) + 2 + 4 + len(q.Chain)
}

// SignedDataLen is the consistent signed-data size.
func (q *Quote) SignedDataLen() int { return SigSize + KeySize + 2 + 4 + q.CertDataLen() }

// Bytes serialises the quote per the layout.
func (q *Quote) Bytes() []byte {
	var out []byte
	out = append(out, q.Header...)
	out = append(out, q.Body...)
	sd := uint32(q.SignedDataLen())
	if q.SignedDataSize != nil {
		sd = *q.SignedDataSize
	}
	out = append(out, le32(sd)...)
	out = append(out, q.Sig...)
	out = append(out, q.AK...)
	ct := uint16(CertTypeQE)
	if q.CertType != nil {
		ct = *q.CertType
	}
	out = append(out, le16(ct)...)
	cs := uint32(q.CertDataLen())
	if q.CertSize != nil {
		cs = *q.CertSize
	}
	out = append(out, le32(cs)...)
	out = append(out, q.QEReport...)
	out = append(out, q.QESig...)
	as := uint16(len(q.Auth))
	if q.AuthSize != nil {
		as = *q.AuthSize
	}
	out = append(out, le16(as)...)
	out = append(out, q.Auth...)
	pt := uint16(CertTypePCK)
	if q.PckType != nil {
		pt = *q.PckType
	}
	out = append(out, le16(pt)...)
	ps := uint32(len(q.Chain))
	if q.PckSize != nil {
		ps = *q.PckSize
	}
	out = append(out, le32(ps)...)
	out = append(out, q.Chain...)
	out = append(out, q.Extra...)
	return out
}

// FieldOf returns the bytes of a named field of a region buffer.
func FieldOf(region string, name string, buf []byte) []byte {
	for _, f := range Layout {
		if f.Region == region && f.Name == name {
			return buf[f.Start:f.End]
		}
	}
	panic("no field " + region + "." + name)
}

// RandBytes returns n random bytes from rng.
func RandBytes(rng *rand.Rand, n int) []byte {
	b := make([]byte, n)
	rng.Read(b)
	return b
}

// NewHeader returns a valid v4 TDX header with random svn / vendor / user data.
func NewHeader(rng *rand.Rand) []byte {
	h := RandBytes(rng, HeaderSize)
	binary.LittleEndian.PutUint16(h[0:2], 4)
	binary.LittleEndian.PutUint16(h[2:4], 2)
	binary.LittleEndian.PutUint32(h[4:8], TeeTDX)
	return h
}

// BindingHash returns SHA-256(ak || auth) || 32 zero bytes.
func BindingHash(ak, auth []byte) []byte {
	h := sha256.New()
	h.Write(ak)
	h.Write(auth)
	return append(h.Sum(nil), make([]byte, 32)...)
}

// SignQuote fills Sig (header||body signed by akKey) and QESig (QE report signed by pckKey).
func (q *Quote) SignQuote(akKey, pckKey *ecdsa.PrivateKey) {
	q.Sig = SignRS(akKey, append(append([]byte{}, q.Header...), q.Body...))
	q.QESig = SignRS(pckKey, q.QEReport)
}

// Decode is the harness's reference reader: it cuts a byte string along the layout table using the
// declared size fields. It does not decide acceptance (the TLA+ parser machine does); it only says
// which bytes each field must consist of when the input is accepted. ok=false if the declared sizes
// do not fit the input.
func Decode(raw []byte) (q *Quote, ok bool) {
	defer func() {
		if recover() != nil {
			q, ok = nil, false
		}
	}()
	if len(raw) < OffSignedData {
		return nil, false
	}
	q = &Quote{Header: raw[0:HeaderSize], Body: raw[OffBody : OffBody+BodySize]}
	sd := binary.LittleEndian.Uint32(raw[OffSDSize:])
	q.SignedDataSize = &sd
	signed := raw[OffSignedData : uint64(OffSignedData)+uint64(sd)]
	q.Extra = raw[uint64(OffSignedData)+uint64(sd):]
	q.Sig, q.AK = signed[0:64], signed[64:128]
	ct := binary.LittleEndian.Uint16(signed[128:])
	cs := binary.LittleEndian.Uint32(signed[130:])
	q.CertType, q.CertSize = &ct, &cs
	cert := signed[134:]
	q.QEReport, q.QESig = cert[0:384], cert[384:448]
	as := binary.LittleEndian.Uint16(cert[448:])
	q.AuthSize = &as
	q.Auth = cert[450 : 450+int(as)]
	rest := cert[450+int(as):]
	pt := binary.LittleEndian.Uint16(rest[0:])
	ps := binary.LittleEndian.Uint32(rest[2:])
	q.PckType, q.PckSize = &pt, &ps
	q.Chain = rest[6:]
	return q, true
}
