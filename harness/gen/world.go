package gen

import (
	"bytes"
	"crypto/ecdsa"
	"encoding/json"
	"crypto/elliptic"
	"crypto/x509"
	"encoding/hex"
	"errors"
	"fmt"
	"math/big"
	"math/rand"
	"strings"
	"time"
)

// World is an abstract world: dimension name -> value, as enumerated by spec/TdxVerify.tla.
// A missing dimension has its baseline value. Each value has exactly one realisation rule,
// documented next to the code that implements it (and in DESIGN.md Appendix C).
type World map[string]string

// Baseline gives the honest value of every dimension (the first value of each TLA+ enumeration).
var Baseline = World{
	"qsig": "ok", "ak": "ok", "mut": "none", "bind": "ok", "qeSigner": "leaf", "authLen": "n32", "extra": "none",
	"leafPki": "A", "interPki": "A", "rootPki": "A", "pool": "A", "leafRole": "pck", "nBlocks": "n3", "trailer": "none",
	"pemType": "cert", "interCN": "platform", "leafId": "l1", "serials": "std", "sigShape": "any", "msgWide": "none", "sgxOrder": "canon", "sgxValues": "random", "crlShape": "std", "crlChain": "distinct", "leafExtCritical": "no", "interSlot": "inter", "rotVia": "pool", "sharedSigner": "distinct", "src": "gen",
	"tcbSigner": "ok", "tcbOver": "member", "tcbAlter": "none", "tcbExtra": "none", "tcbHdr": "ok", "tcbMeta": "ok",
	"qeSignerDoc": "ok", "qeOver": "member", "qeAlter": "none", "qeExtra": "none", "qeHdr": "ok", "qeMeta": "ok",
	"tcbContent": "ok", "modBranch": "none", "qeContent": "ok",
	"pckCrlRev": "none", "rootCrlRev": "none", "pckCrlSigner": "inter", "rootCrlSigner": "root", "pckCrlFetch": "ok", "rootCrlDps": "ok",
	"time": "none",
}

// Get returns the value of a dimension (baseline if absent).
func (w World) Get(d string) string {
	if v, ok := w[d]; ok {
		return v
	}
	v, ok := Baseline[d]
	if !ok {
		panic("unknown dimension " + d)
	}
	return v
}

// Params are the non-abstract knobs of one realisation.
type Params struct {
	Seed    int64
	MutBit  int  // bit index inside the mutated region (mut != none), taken modulo the region size
	MutMulti int // > 0: instead of one bit, that many random bytes of the region are overwritten (at least one changes)
	AltBit  int  // for *Alter = memberBit: -1 = the canonical harmless digit flip; else bit index modulo member size
	WallNow bool // true: validity windows are centred on the wall clock (for Options.Now == nil runs)
	// Header / Body (optional): use these bytes as the quote header (48) and TD body (584) instead of random ones
	Header, Body []byte
	// LeafExpiresIn (WallNow only): the PCK leaf's notAfter is that far in the future instead of a year away
	LeafExpiresIn time.Duration
}

// Concrete is everything the drivers need to run one world against the real code.
type Concrete struct {
	// RotDir, if set, is where root-of-trust bundle files of this world are written: under stable names, padded to one size and with one
	// modification time, the way a deployment replaces a bundle in place (a history sets it to one directory for all its worlds)
	RotDir string
	W     World
	Q     *Quote
	Raw   []byte
	Pool  *x509.CertPool // nil means "no pool given"
	PoolDERs [][]byte
	Getter *Getter
	Clocks map[string]time.Time // PckCertChain, TcbInfo, QeIdentity, PckCrl, RootCaCrl
	T0     time.Time

	TcbURL, QeURL, PckCrlURL string
	RootCrlURLs              []string
	FMSPC                    string
	CA                       string

	A, B  *PKI
	Leaf  Entity
	AKKey *ecdsa.PrivateKey

	// Ground truth for the self-check and for the evidence samples.
	MutRegionBits int
	Unrealizable  string

	TcbSigner, QeSigner Entity // honest signers of the two documents (for drivers that re-sign altered members)
	HdrRootDER          []byte // root certificate as sent in the issuer-chain headers
	PckCrlDER, RootCrlDER []byte
	TcbSpec TcbInfoSpec
	QeSpec  QeIdentitySpec
	TcbBody, QeBody []byte
	TcbMember, QeMember []byte
	Sgx SgxValues
}

// ClockNames lists the five TimeSet entries.
var ClockNames = []string{"PckCertChain", "TcbInfo", "QeIdentity", "PckCrl", "RootCaCrl"}

// Governing maps each time-artefact to the TimeSet entry that must judge it (C06's table;
// the same table is written in spec/TdxVerify.tla as Gov).
var Governing = map[string]string{
	"leaf": "PckCertChain", "inter": "PckCertChain", "root": "PckCertChain",
	"tcbNext": "TcbInfo", "tcbSigner": "TcbInfo", "tcbRoot": "TcbInfo",
	"qeNext": "QeIdentity", "qeSigner": "QeIdentity", "qeRoot": "QeIdentity",
	"pckCrlNext": "PckCrl", "pckCrlSigner": "PckCrl", "pckCrlRoot": "PckCrl",
	"rootCrlNext": "RootCaCrl",
}

type window struct{ nb, na time.Time }

func otherPKI(s string) string {
	if s == "A" {
		return "B"
	}
	return "A"
}

// mutateRegion applies the post-signing mutation of a region: one bit, or several random bytes.
func mutateRegion(b []byte, p Params, rng *rand.Rand) {
	if p.MutMulti <= 0 || len(b) == 0 {
		flipBit(b, p.MutBit)
		return
	}
	r2 := rand.New(rand.NewSource(p.Seed ^ int64(p.MutBit)*2654435761))
	orig := append([]byte{}, b...)
	for i := 0; i < p.MutMulti; i++ {
		b[r2.Intn(len(b))] = byte(r2.Intn(256))
	}
	if bytes.Equal(b, orig) { // nothing changed in the end (a later write may have restored an earlier one): change one bit
		b[r2.Intn(len(b))] ^= 0x01
	}
}

func flipBit(b []byte, bit int) {
	if len(b) == 0 {
		return
	}
	bit = ((bit % (len(b) * 8)) + len(b)*8) % (len(b) * 8)
	b[bit/8] ^= 1 << uint(bit%8)
}

// foldKeys replaces s/k inside JSON keys by their Unicode simple-fold partners (U+017F, U+212A)
// and upper-cases the remaining letters: Go's encoding/json matches such keys to struct fields.
func foldKeys(js []byte) []byte {
	var out strings.Builder
	s := string(js)
	inStr, isKey := false, false
	for i := 0; i < len(s); i++ {
		c := s[i]
		if c == '"' && (i == 0 || s[i-1] != '\\') {
			if !inStr {
				inStr = true
				// a string is a key iff the next non-space after its closing quote is ':'
				j := i + 1
				for j < len(s) && !(s[j] == '"' && s[j-1] != '\\') {
					j++
				}
				k := j + 1
				for k < len(s) && (s[k] == ' ') {
					k++
				}
				isKey = k < len(s) && s[k] == ':'
			} else {
				inStr = false
				isKey = false
			}
			out.WriteByte(c)
			continue
		}
		if inStr && isKey {
			switch c {
			case 's':
				out.WriteString("ſ")
				continue
			case 'k':
				out.WriteString("K")
				continue
			}
			if c >= 'a' && c <= 'z' {
				out.WriteByte(c - 32)
				continue
			}
		}
		out.WriteByte(c)
	}
	return []byte(out.String())
}

// Build realises a world.
func Build(w World, p Params) *Concrete {
	rng := rand.New(rand.NewSource(p.Seed))
	c := &Concrete{W: w, Clocks: map[string]time.Time{}}

	// ---- time -----------------------------------------------------------------------
	var t0 time.Time
	if p.WallNow {
		t0 = time.Now().UTC().Truncate(time.Second)
	} else {
		t0 = time.Date(2031, 3, 14, 12, 0, 0, 0, time.UTC).Add(time.Duration(rng.Intn(1000)) * time.Hour)
	}
	c.T0 = t0
	farNB, farNA := Validity(t0)
	win := map[string]window{}
	for a := range Governing {
		win[a] = window{farNB, farNA}
	}
	for _, n := range ClockNames {
		c.Clocks[n] = t0
	}
	if w.Get("time") == "spread" && !p.WallNow {
		for i, n := range ClockNames { // pairwise distinct, all far inside every window
			c.Clocks[n] = t0.Add(time.Duration(1+i*7+rng.Intn(5)) * time.Hour)
		}
	}
	if p.WallNow && p.LeafExpiresIn > 0 {
		win["leaf"] = window{farNB, t0.Add(p.LeafExpiresIn)}
	} else if tv := w.Get("time"); tv != "none" && tv != "spread" {
		if p.WallNow {
			c.Unrealizable = "time dimension needs explicit clocks"
			return c
		}
		parts := strings.SplitN(tv, "_", 2)
		art, pos := parts[0], parts[1]
		gov, ok := Governing[art]
		if !ok {
			panic("bad time artefact " + art)
		}
		E := t0.Add(time.Hour)
		var govT, otherT time.Time
		switch pos {
		case "before":
			win[art] = window{farNB, E}
			govT, otherT = E.Add(-time.Second), E.Add(time.Second)
		case "at":
			win[art] = window{farNB, E}
			govT, otherT = E, E.Add(time.Second)
		case "after":
			win[art] = window{farNB, E}
			govT, otherT = E.Add(time.Second), E.Add(-time.Second)
		case "preNB":
			win[art] = window{E, farNA}
			govT, otherT = E.Add(-time.Second), E.Add(time.Second)
		default:
			panic("bad time position " + pos)
		}
		for _, n := range ClockNames {
			c.Clocks[n] = otherT
		}
		c.Clocks[gov] = govT
	}

	// ---- PKIs -----------------------------------------------------------------------
	dps := []string{DefaultRootCrlURL}
	dpOutcomes := []string{"ok"}
	switch w.Get("rootCrlDps") {
	case "ok":
	case "none":
		dps, dpOutcomes = []string{}, nil
	case "error":
		dpOutcomes = []string{"error"}
	case "garbage":
		dpOutcomes = []string{"garbage"}
	case "errorThenOk":
		dps, dpOutcomes = []string{"https://dp1.example/root.crl", DefaultRootCrlURL}, []string{"error", "ok"}
	case "garbageThenOk":
		dps, dpOutcomes = []string{"https://dp1.example/root.crl", DefaultRootCrlURL}, []string{"garbage", "ok"}
	case "errorError":
		dps, dpOutcomes = []string{"https://dp1.example/root.crl", DefaultRootCrlURL}, []string{"error", "error"}
	case "malformedThenOk": // the first location is not a well-formed URI (a certificate may carry any IA5String): it cannot be fetched, the next one can
		dps, dpOutcomes = []string{"https://dp%zz.example:port/ro\x7fot.crl", DefaultRootCrlURL}, []string{"error", "ok"}
	default:
		panic("bad rootCrlDps")
	}
	interCN := CNPlatform
	c.CA = "platform"
	if w.Get("interCN") == "processor" {
		interCN = CNProcessor
		c.CA = "processor"
	}
	ks := p.Seed*2654435761 + 12345 // key seed: worlds realised with the same Params.Seed share all named keys
	if ks == 0 {
		ks = 1
	}
	serialBase, leafTop := int64(0x1000), []byte{0x5a}
	switch w.Get("serials") {
	case "std":
	case "oddHex": // an odd number of hex digits: "a02", not "0a02"
		serialBase, leafTop = 0x0a00, []byte{0x05}
	case "highBit": // DER pads the INTEGER with a 00 byte
		serialBase, leafTop = 0x8000, []byte{0xd5}
	case "tiny":
		serialBase, leafTop = 0x10, []byte{}
	default:
		panic("bad serials")
	}
	A := NewPKI(PKIOpts{T0: t0, InterCN: interCN, RootCrlDP: dps, SerialBase: serialBase, Seed: ks, Name: "A"})
	B := NewPKI(PKIOpts{T0: t0, InterCN: interCN, RootCrlDP: dps, SerialBase: serialBase, Seed: ks, Name: "B"}) // identical names and serials, other keys
	c.A, c.B = A, B
	pki := map[string]*PKI{"A": A, "B": B}
	H := pki[w.Get("leafPki")] // home PKI: issues the leaf and the honest collateral
	O := pki[otherPKI(w.Get("leafPki"))]
	foreign := NamedKey(ks, "foreign")

	// second signer certificate (QE identity) so that the two signer serials are distinct
	qeSignKey := NamedKey(ks, w.Get("leafPki")+".qesign")
	qeSignCert, qeSignDER := Issue(CertSpec{CN: CNTcbSign, Serial: big.NewInt(serialBase + 4), NotBefore: win["qeSigner"].nb, NotAfter: win["qeSigner"].na,
		CRLDP: dps, Pub: &qeSignKey.PublicKey, Parent: H.Root.Cert, SignKey: H.Root.Key})
	qeSign := Entity{qeSignKey, qeSignCert, qeSignDER}
	tcbSign := Reissue(H.TcbSign, H.Root.Cert, H.Root.Key, win["tcbSigner"].nb, win["tcbSigner"].na, nil)
	if w.Get("sharedSigner") == "shared" { // Intel's practice: one signing certificate, byte-identical issuer chains for both documents
		sw := win["tcbSigner"]
		if strings.HasPrefix(w.Get("time"), "qeSigner_") {
			sw = win["qeSigner"]
		}
		tcbSign = Reissue(H.TcbSign, H.Root.Cert, H.Root.Key, sw.nb, sw.na, nil)
		qeSign = tcbSign
	}
	if w.Get("sharedSigner") == "sameKey" { // the signing certificate was re-issued: same key and subject, another serial; one per document
		qeSign = Reissue(H.TcbSign, H.Root.Cert, H.Root.Key, win["qeSigner"].nb, win["qeSigner"].na, big.NewInt(serialBase+4))
	}

	// ---- pool -----------------------------------------------------------------------
	switch w.Get("pool") {
	case "nil":
		c.Pool = nil
	case "empty":
		c.Pool = x509.NewCertPool()
	case "A":
		c.Pool = x509.NewCertPool()
		c.Pool.AddCert(A.Root.Cert)
		c.PoolDERs = [][]byte{A.Root.DER}
	case "B":
		c.Pool = x509.NewCertPool()
		c.Pool.AddCert(B.Root.Cert)
		c.PoolDERs = [][]byte{B.Root.DER}
	case "AB":
		c.Pool = x509.NewCertPool()
		c.Pool.AddCert(A.Root.Cert)
		c.Pool.AddCert(B.Root.Cert)
		c.PoolDERs = [][]byte{A.Root.DER, B.Root.DER}
	case "AI": // the caller's bundle lists the platform CA next to the root
		c.Pool = x509.NewCertPool()
		c.Pool.AddCert(A.Inter.Cert)
		c.Pool.AddCert(A.Root.Cert)
		c.PoolDERs = [][]byte{A.Inter.DER, A.Root.DER}
	default:
		panic("bad pool")
	}

	// ---- platform values, SGX extension, leaf ---------------------------------------
	sgx := SgxValues{PPID: RandBytes(rng, 16), CPUSvn: RandBytes(rng, 16), PCEID: RandBytes(rng, 2), FMSPC: RandBytes(rng, 6)}
	if w.Get("sgxValues") == "derLike" { // values whose bytes read as the complete DER of a shorter octet string: values like any other
		sgx.PPID[0], sgx.PPID[1] = 0x04, 0x0e
		sgx.PCEID[0], sgx.PCEID[1] = 0x04, 0x00
		sgx.FMSPC[0], sgx.FMSPC[1] = 0x04, 0x04
		sgx.CPUSvn[0], sgx.CPUSvn[1] = 0x04, 0x0e
	}
	for i := range sgx.Comp {
		sgx.Comp[i] = int64(20 + rng.Intn(200)) // leaves room below and above
	}
	sgx.PCESvn = int64(100 + rng.Intn(60000))
	c.Sgx = sgx
	c.FMSPC = hex.EncodeToString(sgx.FMSPC)
	ext := SgxExtOrdered(sgx, w.Get("sgxOrder"))

	leafSerial := new(big.Int).SetBytes(append(append([]byte{}, leafTop...), RandBytes(rng, 19)...)) // 20-byte positive serial like Intel's
	if len(leafTop) == 0 {
		leafSerial = big.NewInt(serialBase + 9)
	}
	var leaf Entity
	lw := win["leaf"]
	// two PCK leaves of the same platform exist; the chain carries leafId, the other one is "the other leaf"
	leafKeyName, otherLeafName := "leaf1", "leaf2"
	if w.Get("leafId") == "l2" {
		leafKeyName, otherLeafName = "leaf2", "leaf1"
	}
	leafKey, otherLeafKey := NamedKey(ks, leafKeyName), NamedKey(ks, otherLeafName)
	if leafKeyName == "leaf2" {
		leafSerial = new(big.Int).Add(leafSerial, big.NewInt(7))
	}
	switch w.Get("leafRole") {
	case "pck":
		leaf = H.NewLeafKeyCrit(leafKey, CNPck, leafSerial, ext, lw.nb, lw.na, w.Get("leafExtCritical") == "yes")
	case "wrongCN": // right issuer, SGX extension present, but the subject of another role
		leaf = H.NewLeafKeyCrit(leafKey, CNTcbSign, leafSerial, ext, lw.nb, lw.na, w.Get("leafExtCritical") == "yes")
	case "cnUpper", "cnSpace", "cnKelvin": // issued like a PCK leaf, but its common name only *resembles* the PCK role name
		cn := map[string]string{"cnUpper": "INTEL SGX PCK CERTIFICATE", "cnSpace": "Intel SGX PCK Certificate ", "cnKelvin": "Intel SGX PC\u212a Certificate"}[w.Get("leafRole")]
		leaf = H.NewLeafKeyCrit(leafKey, cn, leafSerial, ext, lw.nb, lw.na, w.Get("leafExtCritical") == "yes")
	case "tcbSignByRoot": // a TCB-Signing-named certificate issued by the (trusted) root, carrying an SGX extension
		k := leafKey
		cert, der := Issue(CertSpec{CN: CNTcbSign, Serial: leafSerial, NotBefore: lw.nb, NotAfter: lw.na, CRLDP: []string{PckCrlURL("platform")},
			SgxExt: ext, SgxCritical: w.Get("leafExtCritical") == "yes", Pub: &k.PublicKey, Parent: H.Root.Cert, SignKey: H.Root.Key})
		leaf = Entity{k, cert, der}
	case "pckByRoot": // PCK-named, SGX extension, but issued directly by the (trusted) root
		k := leafKey
		cert, der := Issue(CertSpec{CN: CNPck, Serial: leafSerial, NotBefore: lw.nb, NotAfter: lw.na, CRLDP: []string{PckCrlURL("platform")},
			SgxExt: ext, SgxCritical: w.Get("leafExtCritical") == "yes", Pub: &k.PublicKey, Parent: H.Root.Cert, SignKey: H.Root.Key})
		leaf = Entity{k, cert, der}
	case "caAsLeaf": // a CA certificate (Platform-CA-named) issued by the root, carrying an SGX extension
		k := leafKey
		cert, der := Issue(CertSpec{CN: interCN, Serial: leafSerial, NotBefore: lw.nb, NotAfter: lw.na, IsCA: true, CRLDP: []string{PckCrlURL("platform")},
			SgxExt: ext, SgxCritical: w.Get("leafExtCritical") == "yes", Pub: &k.PublicKey, Parent: H.Root.Cert, SignKey: H.Root.Key})
		leaf = Entity{k, cert, der}
	default:
		panic("bad leafRole")
	}
	c.Leaf = leaf

	// crlChain=shared: the PCK CRL is served with the very certificates the quote carries as its issuer chain (as Intel does): one
	// certificate is then two artefacts, judged at two clocks; its validity window is the one the time dimension names
	crlShared := w.Get("crlChain") == "shared" && w.Get("interPki") == w.Get("leafPki") && w.Get("rootPki") == w.Get("leafPki") && w.Get("interSlot") == "inter"
	iw, rw := win["inter"], win["root"]
	if crlShared && strings.HasPrefix(w.Get("time"), "pckCrlSigner_") {
		iw = win["pckCrlSigner"]
	}
	if crlShared && strings.HasPrefix(w.Get("time"), "pckCrlRoot_") {
		rw = win["pckCrlRoot"]
	}
	embInter := Reissue(pki[w.Get("interPki")].Inter, pki[w.Get("interPki")].Root.Cert, pki[w.Get("interPki")].Root.Key, iw.nb, iw.na, nil)
	embRoot := Reissue(pki[w.Get("rootPki")].Root, nil, pki[w.Get("rootPki")].Root.Key, rw.nb, rw.na, nil)
	if w.Get("pool") == "AI" && w.Get("interPki") == "A" {
		// the caller's bundle lists the platform CA certificate itself -- the one the quote carries, with the validity window the time
		// dimension gives it (a second, differently dated certificate for the same CA would be a valid trust anchor of its own and the
		// quote's copy would no longer be on the validated path)
		c.Pool = x509.NewCertPool()
		c.Pool.AddCert(embInter.Cert)
		c.Pool.AddCert(A.Root.Cert)
		c.PoolDERs = [][]byte{embInter.DER, A.Root.DER}
	}
	slotInter := embInter // what the second PEM block carries
	switch w.Get("interSlot") {
	case "inter":
	case "root":
		slotInter = embRoot
	case "otherCA": // a genuine CA certificate of the same root, named after the other PCK CA: it did not issue the leaf
		otherCN := CNProcessor
		if interCN == CNProcessor {
			otherCN = CNPlatform
		}
		ip := pki[w.Get("interPki")]
		k := NamedKey(ks, w.Get("interPki")+".otherCA")
		cert, der := Issue(CertSpec{CN: otherCN, Serial: big.NewInt(serialBase + 5), NotBefore: win["inter"].nb, NotAfter: win["inter"].na, IsCA: true, CRLDP: dps,
			Pub: &k.PublicKey, Parent: ip.Root.Cert, SignKey: ip.Root.Key})
		slotInter = Entity{k, cert, der}
	default:
		panic("bad interSlot")
	}

	// ---- quote ----------------------------------------------------------------------
	q := &Quote{Header: NewHeader(rng), Body: RandBytes(rng, BodySize)}
	svn := FieldOf("body", "tee_tcb_svn", q.Body)
	for i := range svn {
		svn[i] = byte(20 + rng.Intn(200))
	}
	mod := w.Get("modBranch")
	if mod == "none" {
		svn[1] = 0
	} else {
		svn[1] = []byte{1, 2, 3, 0x0a, 0x1f, 0xc4, 0x10, 0xfe}[rng.Intn(8)] // module versions whose hex spelling has letters too
		svn[0] = byte(5 + rng.Intn(100))
	}
	if p.Body != nil { // a given TD body (e.g. the one the sample event log belongs to); the world's modBranch must agree with it
		q.Body = append([]byte{}, p.Body...)
		svn = FieldOf("body", "tee_tcb_svn", q.Body)
		if (svn[1] == 0) != (mod == "none") {
			c.Unrealizable = "given TD body disagrees with modBranch"
			return c
		}
	}
	if p.Header != nil {
		q.Header = append([]byte{}, p.Header...)
	}
	// keep XFAM / TD_ATTRIBUTES policy-neutral (all verify drivers ignore them)

	k1, k2, k3 := NamedKey(ks, "ak1"), NamedKey(ks, "ak2"), NamedKey(ks, "ak3")
	quoteKey := k1
	if w.Get("bind") == "wrongHash" {
		quoteKey = k2 // self-consistent quote signature under K2; QE report still vouches for K1
	}
	c.AKKey = quoteKey
	akBytes := PubXY(&quoteKey.PublicKey)
	switch w.Get("ak") {
	case "ok":
	case "offCurve":
		akBytes[63] ^= 1
		x, y := new(big.Int).SetBytes(akBytes[:32]), new(big.Int).SetBytes(akBytes[32:])
		if elliptic.P256().IsOnCurve(x, y) {
			akBytes[63] ^= 3
		}
	case "zero":
		akBytes = make([]byte, 64)
	case "swapped":
		akBytes = append(append([]byte{}, akBytes[32:]...), akBytes[:32]...)
	default:
		panic("bad ak")
	}
	q.AK = akBytes
	switch w.Get("authLen") {
	case "n32":
		q.Auth = RandBytes(rng, 32)
	case "n0":
		q.Auth = []byte{}
	case "big":
		q.Auth = RandBytes(rng, 65535)
	default:
		panic("bad authLen")
	}
	q.QEReport = RandBytes(rng, QEReportSize)
	if w.Get("msgWide") == "isvSvnPlus65536" { // the signed ISVSVN is 0, so that the message's value is exactly 2^16
		copy(FieldOf("qereport", "isv_svn", q.QEReport), []byte{0, 0})
	}
	bindAK := akBytes
	if w.Get("bind") == "wrongHash" {
		bindAK = PubXY(&k1.PublicKey)
	}
	rd := BindingHash(bindAK, q.Auth)
	switch w.Get("bind") {
	case "authPrefix": // the QE vouches for a prefix of the authentication data only: bytes were appended afterwards
		if len(q.Auth) < 60000 {
			q.Auth = append(q.Auth, RandBytes(rng, 16)...)
		}
		rd = BindingHash(bindAK, q.Auth[:len(q.Auth)-16])
	case "akOnly": // the authentication data takes no part in the hash
		if len(q.Auth) == 0 {
			q.Auth = RandBytes(rng, 1)
		}
		rd = BindingHash(bindAK, nil)
	case "authSuffix": // the first byte of the authentication data takes no part in the hash
		if len(q.Auth) < 60000 {
			q.Auth = append(RandBytes(rng, 1), q.Auth...)
		}
		rd = BindingHash(bindAK, q.Auth[1:])
	}
	if w.Get("bind") == "nonZeroTail" {
		for i := 32; i < 64; i++ {
			rd[i] = byte(1 + rng.Intn(255))
		}
	}
	copy(FieldOf("qereport", "report_data", q.QEReport), rd)

	// header||body signature
	msg := append(append([]byte{}, q.Header...), q.Body...)
	switch w.Get("qsig") {
	case "ok":
		q.Sig = SignRSDetShape(quoteKey, msg, "quote", strings.TrimPrefix(w.Get("sigShape"), "quote"))
	case "otherKey":
		q.Sig = SignRSDet(k3, msg, "quote")
	case "zero":
		q.Sig = make([]byte, 64)
	case "sHigh": // r genuine, s := n (out of range)
		q.Sig = SignRSDet(quoteKey, msg, "quote")
		elliptic.P256().Params().N.FillBytes(q.Sig[32:])
	default:
		panic("bad qsig")
	}
	switch w.Get("qeSigner") {
	case "leaf":
		q.QESig = SignRSDetShape(leaf.Key, q.QEReport, "qe", strings.TrimPrefix(w.Get("sigShape"), "qeReport"))
	case "otherLeaf": // signed by the platform's other PCK key: valid for a quote that embeds that other leaf, not for this one
		q.QESig = SignRSDet(otherLeafKey, q.QEReport, "qe")
	case "inter":
		q.QESig = SignRSDet(embInter.Key, q.QEReport, "qe")
	case "foreign":
		q.QESig = SignRSDet(foreign, q.QEReport, "qe")
	default:
		panic("bad qeSigner")
	}

	// chain encoding
	first := "CERTIFICATE"
	if w.Get("pemType") == "other" {
		first = "X509 CERTIFICATE"
	}
	chain := append([]byte{}, PEMBlock(first, leaf.DER)...)
	chain = append(chain, PEMCert(slotInter.DER)...)
	switch w.Get("nBlocks") {
	case "n3":
		chain = append(chain, PEMCert(embRoot.DER)...)
	case "n2":
	case "n4":
		chain = append(chain, PEMCert(embRoot.DER)...)
		chain = append(chain, PEMCert(embRoot.DER)...)
	default:
		panic("bad nBlocks")
	}
	switch w.Get("trailer") {
	case "none":
	case "nul":
		chain = append(chain, 0)
	case "nulnul":
		chain = append(chain, 0, 0)
	case "junk":
		chain = append(chain, []byte("junk")...)
	default:
		panic("bad trailer")
	}
	q.Chain = chain
	if w.Get("extra") == "some" {
		q.Extra = RandBytes(rng, 1+rng.Intn(40))
	}

	// post-signing single-bit mutation
	switch w.Get("mut") {
	case "none":
	case "header":
		// every bit of the header is covered by the signature; bits that make the quote
		// unparsable are rejected for that reason, which is still a rejection.
		c.MutRegionBits = len(q.Header) * 8
		mutateRegion(q.Header, p, rng)
	case "body":
		c.MutRegionBits = len(q.Body) * 8
		mutateRegion(q.Body, p, rng)
	case "ak":
		c.MutRegionBits = len(q.AK) * 8
		mutateRegion(q.AK, p, rng)
	case "qeReport":
		c.MutRegionBits = len(q.QEReport) * 8
		mutateRegion(q.QEReport, p, rng)
	case "authData":
		if len(q.Auth) == 0 {
			c.Unrealizable = "no auth data to mutate"
			return c
		}
		c.MutRegionBits = len(q.Auth) * 8
		mutateRegion(q.Auth, p, rng)
	case "sig":
		c.MutRegionBits = len(q.Sig) * 8
		mutateRegion(q.Sig, p, rng)
	case "qeSig":
		c.MutRegionBits = len(q.QESig) * 8
		mutateRegion(q.QESig, p, rng)
	default:
		panic("bad mut")
	}
	c.Q = q
	c.Raw = q.Bytes()

	// ---- collateral -----------------------------------------------------------------
	g := NewGetter()
	c.Getter = g
	c.TcbURL, c.QeURL, c.PckCrlURL, c.RootCrlURLs = TcbInfoURL(c.FMSPC), QeIdentityURL(), PckCrlURL(c.CA), dps

	mrsignerSeam := FieldOf("body", "mr_signer_seam", q.Body)
	seamAttrs := FieldOf("body", "seam_attributes", q.Body)
	mask := RandBytes(rng, 8)
	mask[0] |= 1 // at least one bit inside the mask
	attrs := make([]byte, 8)
	for i := range attrs {
		attrs[i] = seamAttrs[i] & mask[i]
	}
	good := PlatLevel{Pce: int(sgx.PCESvn) - rng.Intn(50), Status: "UpToDate"}
	for i := 0; i < 16; i++ {
		good.Sgx[i] = int(sgx.Comp[i]) - rng.Intn(10)
		good.Tdx[i] = int(svn[i]) - rng.Intn(10)
		if good.Tdx[i] < 0 {
			good.Tdx[i] = 0
		}
	}
	if mod != "none" {
		good.Tdx[0], good.Tdx[1] = 255, 255 // must be skipped when TEE_TCB_SVN[1] != 0
	}
	// a few levels are exactly equal to the platform (boundary)
	if rng.Intn(2) == 0 {
		for i := 0; i < 16; i++ {
			good.Sgx[i] = int(sgx.Comp[i])
		}
		good.Pce = int(sgx.PCESvn)
	}
	above := good
	above.Sgx[rng.Intn(16)] = 255
	above.Status = "Revoked"
	aboveUp := above
	aboveUp.Status = "UpToDate"
	lower := good
	for i := 0; i < 16; i++ {
		lower.Sgx[i] = 0
	}
	lower.Pce = 0
	for i := 2; i < 16; i++ {
		lower.Tdx[i] = 0
	}
	lower.Status = "UpToDate"

	tcb := TcbInfoSpec{ID: "TDX", Version: 3, NextUpdate: win["tcbNext"].na, Fmspc: c.FMSPC, PceID: hex.EncodeToString(sgx.PCEID),
		Mrsigner: strings.ToUpper(hex.EncodeToString(mrsignerSeam)), Attrs: hex.EncodeToString(attrs), AttrsMask: hex.EncodeToString(mask),
		Levels: []PlatLevel{good, lower}}
	goodTcb := tcb // the content an "evil" unsigned sibling would carry
	withStatus := func(st string) []PlatLevel {
		l := good
		l.Status = st
		return []PlatLevel{l, lower}
	}
	switch w.Get("tcbContent") {
	case "ok":
	case "fmspc":
		tcb.Fmspc = hex.EncodeToString(RandBytes(rng, 6))
	case "pceid":
		b := append([]byte{}, sgx.PCEID...)
		b[1] ^= 0x10
		tcb.PceID = hex.EncodeToString(b)
	case "mrsigner":
		b := append([]byte{}, mrsignerSeam...)
		b[47] ^= 1
		tcb.Mrsigner = hex.EncodeToString(b)
	case "attrs": // expected attributes differ from the quote's inside the mask
		b := append([]byte{}, attrs...)
		b[0] ^= 1
		tcb.Attrs = hex.EncodeToString(b)
	case "outOfDate":
		tcb.Levels = withStatus("OutOfDate")
	case "revoked":
		tcb.Levels = withStatus("Revoked")
	case "swHardening":
		tcb.Levels = withStatus("SWHardeningNeeded")
	case "configNeeded":
		tcb.Levels = withStatus("ConfigurationNeeded")
	case "noLevel":
		tcb.Levels = []PlatLevel{aboveUp}
	case "laterMatch":
		tcb.Levels = []PlatLevel{above, good, lower}
	case "laterMatchTdx": // the earlier level is satisfied on SGX components and PCE SVN and fails only on a TDX component
		e := good
		e.Tdx[2+rng.Intn(14)] = 255
		e.Status = "Revoked"
		tcb.Levels = []PlatLevel{e, good, lower}
	case "laterMatchPce": // the earlier level fails only on the PCE SVN
		e := good
		e.Pce = int(sgx.PCESvn) + 1
		e.Status = "Revoked"
		tcb.Levels = []PlatLevel{e, good, lower}
	case "fmspcUpper":
		tcb.Fmspc = strings.ToUpper(c.FMSPC)
	case "attrsShort": // mask and expected value cover the first four bytes only (and agree with the quote there)
		tcb.Attrs, tcb.AttrsMask = hex.EncodeToString(attrs[:4]), hex.EncodeToString(mask[:4])
	case "attrsEmpty": // nothing to compare
		tcb.Attrs, tcb.AttrsMask = "", ""
	case "attrsLong": // a mask longer than the field; the expected value agrees on the field's eight bytes
		tcb.AttrsMask = hex.EncodeToString(append(append([]byte{}, mask...), 0xff, 0xff))
	case "mrsignerShort": // a prefix of MRSIGNERSEAM
		tcb.Mrsigner = strings.ToUpper(hex.EncodeToString(mrsignerSeam[:32]))
	default:
		panic("bad tcbContent")
	}
	modID := fmt.Sprintf("TDX_%02x", svn[1])
	decoy := ModIdentity{ID: "TDX_7f", Levels: []ModLevel{{0, "Revoked"}}}
	okMod := ModIdentity{ID: modID, Levels: []ModLevel{{int(svn[0]) + 1, "Revoked"}, {int(svn[0]), "UpToDate"}, {0, "OutOfDate"}}}
	switch mod {
	case "none":
		tcb.Identities = []ModIdentity{{ID: "TDX_01", Levels: []ModLevel{{0, "OutOfDate"}}}} // must be ignored when TEE_TCB_SVN[1] = 0
		goodTcb.Identities = tcb.Identities
	case "modOk":
		tcb.Identities = []ModIdentity{decoy, okMod}
		goodTcb.Identities = tcb.Identities
	case "modOutOfDate":
		tcb.Identities = []ModIdentity{decoy, {ID: modID, Levels: []ModLevel{{int(svn[0]) + 1, "UpToDate"}, {int(svn[0]), "OutOfDate"}, {0, "UpToDate"}}}}
		goodTcb.Identities = []ModIdentity{decoy, okMod}
	case "modMissing":
		tcb.Identities = []ModIdentity{decoy, {ID: fmt.Sprintf("TDX_%02x", svn[1]+1), Levels: []ModLevel{{0, "UpToDate"}}}}
		goodTcb.Identities = []ModIdentity{decoy, okMod}
	case "modNoLevel":
		tcb.Identities = []ModIdentity{decoy, {ID: modID, Levels: []ModLevel{{int(svn[0]) + 1, "UpToDate"}}}}
		goodTcb.Identities = []ModIdentity{decoy, okMod}
	case "modDupId": // the matching identity twice: the first has no level the module reaches, a later one has; the first one decides (no level: error)
		tcb.Identities = []ModIdentity{decoy, {ID: modID, Levels: []ModLevel{{int(svn[0]) + 1, "UpToDate"}}}, okMod}
		goodTcb.Identities = []ModIdentity{decoy, okMod}
	case "modDecoyIds": // identities whose ids are not "TDX_" + two hex digits come before the right one and are simply not it
		tcb.Identities = []ModIdentity{{ID: "TDX_", Levels: []ModLevel{{0, "Revoked"}}}, {ID: "TDX", Levels: []ModLevel{{0, "Revoked"}}}, {ID: "", Levels: []ModLevel{{0, "Revoked"}}},
			{ID: "TDX_zz", Levels: []ModLevel{{0, "Revoked"}}}, {ID: modID + "0", Levels: []ModLevel{{0, "Revoked"}}}, {ID: "tdx_" + modID[4:], Levels: []ModLevel{{0, "Revoked"}}}, decoy, okMod}
		goodTcb.Identities = tcb.Identities
	case "modOmitted": // the signed member has no tdxModuleIdentities member at all
		tcb.Identities = nil
		goodTcb.Identities = []ModIdentity{decoy, okMod}
	default:
		panic("bad modBranch")
	}
	switch w.Get("tcbMeta") {
	case "ok", "memberMissing", "levelsOmitted":
	case "wrongId":
		tcb.ID = "SGX"
	case "wrongVersion":
		tcb.Version = 2
	case "noLevels":
		tcb.Levels = nil
	default:
		panic("bad tcbMeta")
	}
	c.TcbSpec = tcb

	// QE identity
	qr := q.QEReport
	misc := FieldOf("qereport", "misc_select", qr)
	qattr := FieldOf("qereport", "attributes", qr)
	qmrs := FieldOf("qereport", "mr_signer", qr)
	prod := int(FieldOf("qereport", "isv_prod_id", qr)[0]) | int(FieldOf("qereport", "isv_prod_id", qr)[1])<<8
	isv := int(FieldOf("qereport", "isv_svn", qr)[0]) | int(FieldOf("qereport", "isv_svn", qr)[1])<<8
	mmask := RandBytes(rng, 4)
	mmask[0] |= 1
	mmask[3] &^= 0x80
	amask := RandBytes(rng, 16)
	amask[0] |= 1
	amask[15] &^= 0x80
	and := func(a, b []byte) []byte {
		o := make([]byte, len(a))
		for i := range a {
			o[i] = a[i] & b[i]
		}
		return o
	}
	// MISCSELECT is a little-endian u32 on the wire; the identity's hex string lists the same 4 bytes in wire order
	// (Intel publishes e.g. "00000000"; both sides of the comparison are read little-endian).
	qe := QeIdentitySpec{ID: "TD_QE", Version: 2, NextUpdate: win["qeNext"].na,
		Misc: hex.EncodeToString(and(misc, mmask)), MiscMask: hex.EncodeToString(mmask),
		Attrs: hex.EncodeToString(and(qattr, amask)), AttrsMask: hex.EncodeToString(amask),
		Mrsigner: strings.ToUpper(hex.EncodeToString(qmrs)), IsvProdID: prod,
		Levels: []ModLevel{{isv, "UpToDate"}, {0, "OutOfDate"}}}
	if isv == 0 {
		qe.Levels = []ModLevel{{0, "UpToDate"}}
	}
	goodQe := qe
	qeStatus := func(st string) []ModLevel { return []ModLevel{{isv, st}, {0, "UpToDate"}} }
	switch w.Get("qeContent") {
	case "ok":
	case "maskedDiff": // the report differs from the identity's value only outside the mask: still honest.
		// Realised on the identity side: masks get a zero bit where the report has a one... the identity value is
		// already report&mask, so any report bit outside the mask differs from the identity's (zero) bit.
		mm := append([]byte{}, mmask...)
		mm[3] &^= 0x80
		// force report bits outside the masks to one: rewrite is not possible after signing, so instead
		// clear mask bits where the report has ones and keep identity = report & mask.
		for i := range mm {
			mm[i] &= ^misc[i] | 1
		}
		am := append([]byte{}, amask...)
		for i := range am {
			am[i] &= ^qattr[i] | 1
		}
		qe.MiscMask, qe.Misc = hex.EncodeToString(mm), hex.EncodeToString(and(misc, mm))
		qe.AttrsMask, qe.Attrs = hex.EncodeToString(am), hex.EncodeToString(and(qattr, am))
	case "maskZero": // all-zero masks and all-zero values: every report matches
		qe.MiscMask, qe.Misc = "00000000", "00000000"
		qe.AttrsMask, qe.Attrs = strings.Repeat("00", 16), strings.Repeat("00", 16)
	case "valueOutsideMask": // the identity's value has a bit that its own mask clears: no report can equal it after masking
		if rng.Intn(2) == 0 {
			mm := append([]byte{}, mmask...)
			mm[1] &^= 0x10
			b := and(misc, mm)
			b[1] |= 0x10
			qe.MiscMask, qe.Misc = hex.EncodeToString(mm), hex.EncodeToString(b)
		} else {
			am := append([]byte{}, amask...)
			am[5] &^= 0x04
			b := and(qattr, am)
			b[5] |= 0x04
			qe.AttrsMask, qe.Attrs = hex.EncodeToString(am), hex.EncodeToString(b)
		}
	case "misc":
		b := and(misc, mmask)
		b[0] ^= 1
		qe.Misc = hex.EncodeToString(b)
	case "miscHigh": // differs in the most significant byte only (byte-order slips)
		mm := append([]byte{}, mmask...)
		mm[3] |= 0x40
		b := and(misc, mm)
		b[3] ^= 0x40
		qe.MiscMask, qe.Misc = hex.EncodeToString(mm), hex.EncodeToString(b)
	case "attrs":
		b := and(qattr, amask)
		b[0] ^= 1
		qe.Attrs = hex.EncodeToString(b)
	case "mrsigner":
		b := append([]byte{}, qmrs...)
		b[31] ^= 0x80
		qe.Mrsigner = hex.EncodeToString(b)
	case "prodid":
		qe.IsvProdID = prod ^ 0x100
	case "outOfDate":
		qe.Levels = qeStatus("OutOfDate")
	case "revoked":
		qe.Levels = qeStatus("Revoked")
	case "swHardening":
		qe.Levels = qeStatus("SWHardeningNeeded")
	case "noLevel":
		qe.Levels = []ModLevel{{isv + 1, "UpToDate"}}
		if isv == 65535 {
			c.Unrealizable = "no isvsvn above 65535"
			return c
		}
	case "laterMatch":
		if isv == 65535 {
			c.Unrealizable = "no isvsvn above 65535"
			return c
		}
		qe.Levels = []ModLevel{{isv + 1, "Revoked"}, {isv, "UpToDate"}, {0, "OutOfDate"}}
	case "attrsBothHalvesLE", "attrsBothHalvesBE": // the expected value differs from the masked report in both 8-byte halves, the two
		// differences being each other's two's complement (read little- or big-endian): wordwise arithmetic must not cancel them
		b := and(qattr, amask)
		if w.Get("qeContent") == "attrsBothHalvesLE" {
			b[0] ^= 0x01
		} else {
			b[7] ^= 0x01
		}
		for i := 8; i < 16; i++ {
			b[i] ^= 0xff
		}
		qe.Attrs = hex.EncodeToString(b)
	case "attrsShort": // mask and value cover FLAGS only (8 of 16 bytes) and agree with the report there
		qe.AttrsMask, qe.Attrs = hex.EncodeToString(amask[:8]), hex.EncodeToString(and(qattr, amask)[:8])
	case "attrsEmpty":
		qe.AttrsMask, qe.Attrs = "", ""
	case "attrsLong": // 24-byte mask, 16-byte value that agrees with the report
		qe.AttrsMask = hex.EncodeToString(append(append([]byte{}, amask...), 0xff, 0xff, 0xff, 0xff, 0xff, 0xff, 0xff, 0xff))
	case "miscShort": // two of four bytes, agreeing with the report
		qe.MiscMask, qe.Misc = hex.EncodeToString(mmask[:2]), hex.EncodeToString(and(misc, mmask)[:2])
	case "mrsignerShort":
		qe.Mrsigner = strings.ToUpper(hex.EncodeToString(qmrs[:16]))
	default:
		panic("bad qeContent")
	}
	switch w.Get("qeMeta") {
	case "ok", "memberMissing", "levelsOmitted":
	case "wrongId":
		qe.ID = "QE"
	case "wrongVersion":
		qe.Version = 3
	case "noLevels":
		qe.Levels = nil
	default:
		panic("bad qeMeta")
	}
	c.QeSpec = qe

	var sharedHdrRoot *Entity
	hdrRoot := func(art string) Entity {
		if w.Get("sharedSigner") == "shared" && (art == "tcbRoot" || art == "qeRoot") {
			// byte-identical issuer chains for both documents
			if sharedHdrRoot == nil {
				a := "tcbRoot"
				if strings.HasPrefix(w.Get("time"), "qeRoot_") {
					a = "qeRoot"
				}
				e := Reissue(H.Root, nil, H.Root.Key, win[a].nb, win[a].na, nil)
				sharedHdrRoot = &e
			}
			return *sharedHdrRoot
		}
		return Reissue(H.Root, nil, H.Root.Key, win[art].nb, win[art].na, nil)
	}
	c.TcbSigner, c.QeSigner = tcbSign, qeSign
	c.HdrRootDER = hdrRoot("tcbRoot").DER
	build := func(doc string, memberKey string, member []byte, goodMember []byte, signer Entity, hdrName string, rootArt string,
		signerDim, overDim, alterDim, extraDim, hdrDim, metaDim string) (Response, []byte, []byte) {
		root := hdrRoot(rootArt)
		if w.Get(metaDim) == "levelsOmitted" { // the signed member simply has no tcbLevels member
			member = dropKey(member, "tcbLevels")
		}
		raw := NonCanonical(member)
		signKey := signer.Key
		hdrCerts := [][]byte{signer.DER, root.DER}
		// a signer the trusted root did not certify (or not for this) lives in the same validity window as the genuine one: the time dimension's
		// signer artefact is whichever certificate signs the document
		sw := win[map[string]string{"tcb": "tcbSigner", "qe": "qeSigner"}[doc]]
		switch w.Get(signerDim) {
		case "ok":
		case "pkiB": // self-consistent collateral of the look-alike PKI
			var os Entity
			if doc == "tcb" {
				os = O.TcbSign
				if sw != (window{farNB, farNA}) {
					os = Reissue(O.TcbSign, O.Root.Cert, O.Root.Key, sw.nb, sw.na, nil)
				}
			} else {
				k := NewKey()
				cc, dd := Issue(CertSpec{CN: CNTcbSign, Serial: big.NewInt(serialBase + 4), NotBefore: sw.nb, NotAfter: sw.na, CRLDP: dps, Pub: &k.PublicKey, Parent: O.Root.Cert, SignKey: O.Root.Key})
				os = Entity{k, cc, dd}
			}
			signKey = os.Key
			hdrCerts = [][]byte{os.DER, O.Root.DER}
		case "pkiBSameSki": // the look-alike PKI again, its root and signer now also repeating the genuine certificates' key identifiers
			rk := O.Root.Key
			rc, rd := Issue(CertSpec{CN: CNRoot, Serial: O.Root.Cert.SerialNumber, NotBefore: farNB, NotAfter: farNA, IsCA: true, CRLDP: dps, Pub: &rk.PublicKey, SignKey: rk,
				SKI: H.Root.Cert.SubjectKeyId})
			k := NamedKey(ks, "lookalike-ski-signer-"+doc)
			_, dd := Issue(CertSpec{CN: CNTcbSign, Serial: big.NewInt(serialBase + 3), NotBefore: sw.nb, NotAfter: sw.na, CRLDP: dps, Pub: &k.PublicKey, Parent: rc, SignKey: rk,
				SKI: signer.Cert.SubjectKeyId})
			signKey = k
			hdrCerts = [][]byte{dd, rd}
		case "ekuOther": // certified by the trusted root under the right name, but restricted to another purpose (TLS client authentication)
			k := NamedKey(ks, "eku-signer-"+doc)
			_, dd := Issue(CertSpec{CN: CNTcbSign, Serial: big.NewInt(serialBase + 6), NotBefore: sw.nb, NotAfter: sw.na, CRLDP: dps, Pub: &k.PublicKey,
				Parent: H.Root.Cert, SignKey: H.Root.Key, EKU: []x509.ExtKeyUsage{x509.ExtKeyUsageClientAuth}})
			signKey = k
			hdrCerts = [][]byte{dd, root.DER}
		case "wrongRole": // a key the trusted root certified for another role (Platform CA)
			signKey = H.Inter.Key
			hdrCerts = [][]byte{H.Inter.DER, root.DER}
		case "rootDirect":
			signKey = H.Root.Key
			hdrCerts = [][]byte{root.DER, root.DER}
		case "selfSigned":
			k := NewKey()
			_, dd := Issue(CertSpec{CN: CNTcbSign, Serial: big.NewInt(serialBase + 3), NotBefore: sw.nb, NotAfter: sw.na, CRLDP: dps, Pub: &k.PublicKey, SignKey: k})
			signKey = k
			hdrCerts = [][]byte{dd, root.DER}
		case "lookalikeSameSerial":
			// a certificate that repeats the genuine TCB-Info signer's subject, issuer name and serial number but carries a
			// foreign key and is signed by the look-alike root; presented next to the genuine root certificate
			k := NamedKey(ks, "lookalike-signer")
			_, dd := Issue(CertSpec{CN: CNTcbSign, Serial: H.TcbSign.Cert.SerialNumber, NotBefore: sw.nb, NotAfter: sw.na, CRLDP: dps, Pub: &k.PublicKey,
				Parent: O.Root.Cert, SignKey: O.Root.Key})
			signKey = k
			hdrCerts = [][]byte{dd, root.DER}
		default:
			panic("bad signer dim")
		}
		var sig string
		switch w.Get(overDim) {
		case "member":
			sig = SigHexShape(signKey, raw, strings.TrimPrefix(w.Get("sigShape"), memberKey))
		case "wholeBody":
			sig = SigHex(signKey, Wrap([][2]string{{memberKey, string(raw)}, {"signature", `""`}}))
		case "reencoded":
			sig = SigHex(signKey, member) // compact re-encoding, while the body carries the re-spaced bytes
		default:
			panic("bad over dim")
		}
		bodyMember := append([]byte{}, raw...)
		switch w.Get(alterDim) {
		case "none":
		case "memberBit":
			if p.AltBit < 0 {
				// canonical harmless alteration: tcbEvaluationDataNumber 17 -> 16 (JSON stays valid, verdict-relevant values unchanged)
				i := strings.Index(string(bodyMember), `"tcbEvaluationDataNumber":17`)
				if i < 0 {
					panic("no evaluation number")
				}
				bodyMember[i+len(`"tcbEvaluationDataNumber":17`)-1] = '6'
			} else {
				flipBit(bodyMember, p.AltBit)
			}
		case "sigMissing", "sigNull", "sigEmpty": // applied when the body is assembled
		case "sigBit":
			b := []byte(sig)
			i := 1 + ((p.AltBit%128)+128)%128
			if b[i] == '0' {
				b[i] = '1'
			} else {
				b[i] = '0'
			}
			sig = string(b)
		default:
			panic("bad alter dim")
		}
		members := [][2]string{{memberKey, string(bodyMember)}, {"signature", sig}}
		switch w.Get(alterDim) {
		case "sigMissing":
			members = members[:1]
		case "sigNull":
			members[1][1] = "null"
		case "sigEmpty":
			members[1][1] = `""`
		}
		if w.Get(metaDim) == "memberMissing" {
			members = [][2]string{{memberKey + "X", string(bodyMember)}, {"signature", sig}}
		}
		// the unsigned sibling carries the honest content but is never byte-identical to the signed member
		evil := []byte("{  " + string(goodMember[1:len(goodMember)-1]) + "  }")
		switch w.Get(extraDim) {
		case "none":
		case "dupBefore":
			members = append([][2]string{{memberKey, string(evil)}}, members...)
		case "dupAfter":
			members = append(members, [2]string{memberKey, string(evil)})
		case "caseBefore":
			members = append([][2]string{{strings.ToUpper(memberKey), string(evil)}}, members...)
		case "caseAfter":
			members = append(members, [2]string{strings.ToUpper(memberKey), string(evil)})
		case "foldAfter":
			members = append(members, [2]string{strings.ToUpper(memberKey), string(foldKeys(evil))})
		default:
			panic("bad extra dim")
		}
		body := Wrap(members)
		hv := IssuerChainHeader(hdrCerts...)
		hdr := map[string][]string{hdrName: {hv}, "Content-Type": {"application/json"}}
		switch w.Get(hdrDim) {
		case "ok":
		case "missing":
			delete(hdr, hdrName)
		case "duplicated":
			hdr[hdrName] = []string{hv, hv}
		case "caseDuplicate": // the same header once more under another spelling of its name, carrying another chain: header names are looked up as Go canonicalises them
			hdr[strings.ToLower(hdrName)] = []string{IssuerChainHeader(O.TcbSign.DER, O.Root.DER)}
			hdr[strings.ToUpper(hdrName)] = []string{"garbage"}
		case "empty":
			hdr[hdrName] = []string{""}
		case "swapped":
			hdr[hdrName] = []string{IssuerChainHeader(hdrCerts[1], hdrCerts[0])}
		case "threeCerts":
			hdr[hdrName] = []string{IssuerChainHeader(hdrCerts[0], hdrCerts[1], hdrCerts[1])}
		case "bitflip": // one bit of the DER of the signing or of the root certificate (the decoded DER differs by construction)
			which := rng.Intn(2)
			d := append([]byte{}, hdrCerts[which]...)
			flipBit(d, 8*4+rng.Intn(8*(len(d)-4)))
			cs2 := [][]byte{hdrCerts[0], hdrCerts[1]}
			cs2[which] = d
			hdr[hdrName] = []string{IssuerChainHeader(cs2...)}
		default:
			panic("bad hdr dim")
		}
		return Response{Header: hdr, Body: body}, body, raw
	}
	var r Response
	r, c.TcbBody, c.TcbMember = build("tcb", "tcbInfo", tcb.Member(), goodTcb.Member(), tcbSign, HdrTcbInfo, "tcbRoot",
		"tcbSigner", "tcbOver", "tcbAlter", "tcbExtra", "tcbHdr", "tcbMeta")
	g.Set(c.TcbURL, r)
	// a request for any other FMSPC gets a document for that other FMSPC is not scripted: it fails.
	r, c.QeBody, c.QeMember = build("qe", "enclaveIdentity", qe.Member(), goodQe.Member(), qeSign, HdrQeID, "qeRoot",
		"qeSignerDoc", "qeOver", "qeAlter", "qeExtra", "qeHdr", "qeMeta")
	g.Set(c.QeURL, r)

	// ---- CRLs -----------------------------------------------------------------------
	interSerial := embInter.Cert.SerialNumber
	near := func(s *big.Int) []*big.Int {
		out := []*big.Int{new(big.Int).Add(s, big.NewInt(1)), new(big.Int).Sub(s, big.NewInt(1))}
		// same low bytes, different top byte; and a 20-byte serial sharing the suffix
		b := s.Bytes()
		if len(b) > 1 {
			t := append([]byte{}, b...)
			t[0] ^= 0x01
			out = append(out, new(big.Int).SetBytes(t))
		}
		out = append(out, new(big.Int).SetBytes(append([]byte{0x01}, b...)))
		// the same hex digits shifted by one nibble / one byte
		out = append(out, new(big.Int).Lsh(s, 4), new(big.Int).Lsh(s, 8), new(big.Int).Rsh(s, 4))
		return out
	}
	var pckRev []*big.Int
	switch w.Get("pckCrlRev") {
	case "none":
	case "leaf":
		pckRev = []*big.Int{big.NewInt(77), leaf.Cert.SerialNumber}
	case "leafFirst":
		pckRev = []*big.Int{leaf.Cert.SerialNumber, big.NewInt(77), big.NewInt(78)}
	case "leafAmongMany":
		for i := 0; i < 300; i++ {
			pckRev = append(pckRev, new(big.Int).SetBytes(append([]byte{0x11}, RandBytes(rng, 19)...)))
		}
		pckRev[150+rng.Intn(100)] = leaf.Cert.SerialNumber
	case "interSerial": // the PCK CRL lists the serial the platform CA certificate carries: a leaf of that number, not the CA
		pckRev = []*big.Int{embInter.Cert.SerialNumber, big.NewInt(76)}
	case "nearMiss":
		pckRev = near(leaf.Cert.SerialNumber)
	case "many":
		for i := 0; i < 300; i++ {
			pckRev = append(pckRev, new(big.Int).SetBytes(append([]byte{0x11}, RandBytes(rng, 19)...)))
		}
	default:
		panic("bad pckCrlRev")
	}
	var rootRev []*big.Int
	switch w.Get("rootCrlRev") {
	case "none":
	case "inter":
		rootRev = []*big.Int{big.NewInt(99), interSerial}
	case "tcbSigner":
		rootRev = []*big.Int{tcbSign.Cert.SerialNumber}
	case "qeSigner", "qeSignerReason8":
		rootRev = []*big.Int{big.NewInt(98), qeSign.Cert.SerialNumber}
	case "tcbSignerReason8":
		rootRev = []*big.Int{tcbSign.Cert.SerialNumber}
	case "leafSerial": // the Root CA CRL lists the serial the PCK *leaf* happens to carry: another issuer's certificate, nothing to do with this chain
		rootRev = []*big.Int{big.NewInt(97), leaf.Cert.SerialNumber}
	case "nearMiss":
		rootRev = append(append(near(interSerial), near(tcbSign.Cert.SerialNumber)...), near(qeSign.Cert.SerialNumber)...)
		// the near misses of one serial may hit another signer's serial (they are consecutive): drop those
		var keep []*big.Int
		for _, s := range rootRev {
			if s.Cmp(interSerial) != 0 && s.Cmp(tcbSign.Cert.SerialNumber) != 0 && s.Cmp(qeSign.Cert.SerialNumber) != 0 {
				keep = append(keep, s)
			}
		}
		rootRev = keep
	default:
		panic("bad rootCrlRev")
	}
	named := func(like *x509.Certificate, k *ecdsa.PrivateKey) *x509.Certificate {
		// a CA "certificate" with like's subject name and k's key identifier, used only as CRL issuer template
		return &x509.Certificate{Subject: like.Subject, SubjectKeyId: ski(&k.PublicKey), KeyUsage: x509.KeyUsageCRLSign, IsCA: true, BasicConstraintsValid: true}
	}
	var pckCrl []byte
	pcw := win["pckCrlNext"]
	// every CRL of this world in the shape the world asks for
	mkCRL := func(issuer *x509.Certificate, key *ecdsa.PrivateKey, revoked []*big.Int, reason int, nb, na time.Time) []byte {
		der := CRLReason(issuer, key, revoked, reason, nb, na)
		if w.Get("crlShape") == "noNumber" {
			der = StripCrlNumber(der, key)
		}
		return der
	}
	switch w.Get("pckCrlSigner") {
	case "inter":
		pckCrl = mkCRL(embInter.Cert, embInter.Key, pckRev, 0, pcw.nb, pcw.na)
	case "root": // signed by the root CA, issuer name = root
		pckCrl = mkCRL(embRoot.Cert, embRoot.Key, pckRev, 0, pcw.nb, pcw.na)
	case "rootNamedInter": // signed by the root key but claiming the intermediate's name
		pckCrl = mkCRL(named(embInter.Cert, embRoot.Key), embRoot.Key, pckRev, 0, pcw.nb, pcw.na)
	case "foreignNamed":
		pckCrl = mkCRL(named(embInter.Cert, foreign), foreign, pckRev, 0, pcw.nb, pcw.na)
	case "otherPki": // the look-alike PKI's intermediate
		o := pki[otherPKI(w.Get("interPki"))]
		pckCrl = mkCRL(o.Inter.Cert, o.Inter.Key, pckRev, 0, pcw.nb, pcw.na)
	case "foreignWithHeader": // foreign key, intermediate's name, and a response header that vouches for that key
		pckCrl = mkCRL(named(embInter.Cert, foreign), foreign, pckRev, 0, pcw.nb, pcw.na)
	default:
		panic("bad pckCrlSigner")
	}
	var rootCrl []byte
	rcw := win["rootCrlNext"]
	switch w.Get("rootCrlSigner") {
	case "root":
		rootCrl = mkCRL(embRoot.Cert, embRoot.Key, rootRev, map[bool]int{true: 8, false: 0}[strings.HasSuffix(w.Get("rootCrlRev"), "Reason8")], rcw.nb, rcw.na)
	case "inter":
		rootCrl = mkCRL(embInter.Cert, embInter.Key, rootRev, 0, rcw.nb, rcw.na)
	case "interNamedRoot":
		rootCrl = mkCRL(named(embRoot.Cert, embInter.Key), embInter.Key, rootRev, 0, rcw.nb, rcw.na)
	case "foreignNamed":
		rootCrl = mkCRL(named(embRoot.Cert, foreign), foreign, rootRev, 0, rcw.nb, rcw.na)
	default:
		panic("bad rootCrlSigner")
	}
	c.PckCrlDER, c.RootCrlDER = pckCrl, rootCrl
	crlSignerCert := Reissue(H.Inter, H.Root.Cert, H.Root.Key, win["pckCrlSigner"].nb, win["pckCrlSigner"].na, nil)
	crlRootCert := hdrRoot("pckCrlRoot")
	if crlShared {
		crlSignerCert, crlRootCert = embInter, embRoot
	}
	pckHdr := map[string][]string{HdrPckCrl: {IssuerChainHeader(crlSignerCert.DER, crlRootCert.DER)}}
	if w.Get("pckCrlSigner") == "foreignWithHeader" {
		// look-alike "Intel SGX PCK Platform CA" certificate for the foreign key, self-issued under the intermediate's names
		_, fder := Issue(CertSpec{CN: interCN, Serial: embInter.Cert.SerialNumber, NotBefore: farNB, NotAfter: farNA, IsCA: true, CRLDP: dps,
			Pub: &foreign.PublicKey, SignKey: foreign})
		pckHdr = map[string][]string{HdrPckCrl: {IssuerChainHeader(fder, crlRootCert.DER)}}
	}
	switch w.Get("pckCrlFetch") {
	case "ok":
		g.Set(c.PckCrlURL, Response{Header: pckHdr, Body: pckCrl})
	case "error":
		g.Set(c.PckCrlURL, Response{Err: errors.New("scripted: connection refused")})
	case "garbage":
		g.Set(c.PckCrlURL, Response{Header: pckHdr, Body: []byte("<html>503 Service Unavailable</html>")})
	case "otherIssuer": // a well-formed CRL of another issuer (the Root CA CRL)
		g.Set(c.PckCrlURL, Response{Header: pckHdr, Body: rootCrl})
	case "hdrMissing":
		g.Set(c.PckCrlURL, Response{Header: map[string][]string{}, Body: pckCrl})
	default:
		panic("bad pckCrlFetch")
	}
	for i, u := range dps {
		switch dpOutcomes[i] {
		case "ok":
			g.Set(u, Response{Body: rootCrl})
		case "error":
			g.Set(u, Response{Err: errors.New("scripted: no route to host")})
		case "garbage":
			g.Set(u, Response{Body: []byte{0x30, 0x03, 0x02, 0x01}})
		}
	}
	return c
}


// dropKey removes a top-level member from a JSON object (keeping the other members' order is not needed: the result is signed afterwards).
func dropKey(obj []byte, key string) []byte {
	var m map[string]json.RawMessage
	if err := json.Unmarshal(obj, &m); err != nil {
		panic(err)
	}
	delete(m, key)
	b, err := json.Marshal(m)
	if err != nil {
		panic(err)
	}
	return b
}

// SetTcbInfo replaces the served TCB Info by an honestly signed document with the given content.
func (c *Concrete) SetTcbInfo(spec TcbInfoSpec) {
	c.TcbSpec = spec
	raw := NonCanonical(spec.Member())
	body := Wrap([][2]string{{"tcbInfo", string(raw)}, {"signature", SigHex(c.TcbSigner.Key, raw)}})
	c.TcbBody, c.TcbMember = body, raw
	c.Getter.Set(c.TcbURL, Response{Header: map[string][]string{HdrTcbInfo: {IssuerChainHeader(c.TcbSigner.DER, c.HdrRootDER)}}, Body: body})
}

// SetQeIdentity replaces the served QE Identity by an honestly signed document with the given content.
func (c *Concrete) SetQeIdentity(spec QeIdentitySpec) {
	c.QeSpec = spec
	raw := NonCanonical(spec.Member())
	body := Wrap([][2]string{{"enclaveIdentity", string(raw)}, {"signature", SigHex(c.QeSigner.Key, raw)}})
	c.QeBody, c.QeMember = body, raw
	c.Getter.Set(c.QeURL, Response{Header: map[string][]string{HdrQeID: {IssuerChainHeader(c.QeSigner.DER, c.HdrRootDER)}}, Body: body})
}
