package drv

import (
	"bytes"
	"encoding/asn1"
	"encoding/binary"
	"math/big"
	"math/rand"
	"time"

	"google.golang.org/protobuf/proto"

	"github.com/google/go-tdx-guest/abi"
	pb "github.com/google/go-tdx-guest/proto/tdx"
	"github.com/google/go-tdx-guest/validate"
	"github.com/google/go-tdx-guest/verify"

	"verifharness/gen"
)

const wireHuge = 1000000000

func clampHuge(v uint64) int {
	if v > wireHuge {
		return wireHuge
	}
	return int(v)
}

// realiseWire builds the byte string for a wire case f (ints as in spec/QuoteWire.tla).
func realiseWire(f map[string]any, a, e, chain int, rng *rand.Rand) []byte {
	n := func(k string) int { return int(f[k].(float64)) }
	u32 := func(k string) *uint32 {
		v := n(k)
		x := uint32(v)
		if v >= wireHuge {
			x = 0xffffffff
		}
		return &x
	}
	q := &gen.Quote{Header: gen.NewHeader(rng), Body: gen.RandBytes(rng, gen.BodySize), Sig: gen.RandBytes(rng, 64), AK: gen.RandBytes(rng, 64),
		QEReport: gen.RandBytes(rng, gen.QEReportSize), QESig: gen.RandBytes(rng, 64), Auth: gen.RandBytes(rng, a), Chain: gen.RandBytes(rng, chain), Extra: gen.RandBytes(rng, e)}
	binary.LittleEndian.PutUint16(q.Header[0:], uint16(n("version")))
	binary.LittleEndian.PutUint16(q.Header[2:], uint16(n("keyType")))
	binary.LittleEndian.PutUint32(q.Header[4:], uint32(n("teeType")))
	q.SignedDataSize, q.CertSize, q.PckSize = u32("sd"), u32("certSize"), u32("pckSize")
	ct, pt, as := uint16(n("certType")), uint16(n("pckType")), uint16(n("auth"))
	q.CertType, q.PckType, q.AuthSize = &ct, &pt, &as
	raw := q.Bytes()
	if l := n("len"); l < len(raw) {
		raw = raw[:l]
	} else if l > len(raw) {
		raw = append(raw, gen.RandBytes(rng, l-len(raw))...)
	}
	return raw
}

// factsOf reads the declared fields back from a byte string at the offsets the layout dictates (for sweep cases).
func factsOf(raw []byte) map[string]any {
	f := map[string]any{"len": len(raw), "version": 0, "keyType": 0, "teeType": 0, "sd": 0, "certType": 0, "certSize": 0, "auth": 0, "pckType": 0, "pckSize": 0}
	get16 := func(off int) (int, bool) {
		if off+2 > len(raw) {
			return 0, false
		}
		return int(binary.LittleEndian.Uint16(raw[off:])), true
	}
	get32 := func(off int) (int, bool) {
		if off+4 > len(raw) {
			return 0, false
		}
		return clampHuge(uint64(binary.LittleEndian.Uint32(raw[off:]))), true
	}
	if v, ok := get16(0); ok {
		f["version"] = v
	}
	if v, ok := get16(2); ok {
		f["keyType"] = v
	}
	if v, ok := get32(4); ok {
		f["teeType"] = v
	}
	if v, ok := get32(gen.OffSDSize); ok {
		f["sd"] = v
	}
	if v, ok := get16(gen.OffCertType); ok {
		f["certType"] = v
	}
	if v, ok := get32(gen.OffCertSize); ok {
		f["certSize"] = v
	}
	as, ok := get16(gen.OffAuthSize)
	if ok {
		f["auth"] = as
		if v, ok := get16(gen.OffAuthData + as); ok {
			f["pckType"] = v
		}
		if v, ok := get32(gen.OffAuthData + as + 2); ok {
			f["pckSize"] = v
		}
	}
	return f
}

func toFloatMap(m map[string]any) map[string]any {
	out := map[string]any{}
	for k, v := range m {
		if i, ok := v.(int); ok {
			out[k] = float64(i)
		} else {
			out[k] = v
		}
	}
	return out
}

// checkParsed runs abi.QuoteToProto on raw and derives the facts the trace specification binds.
func checkParsed(raw []byte) Event {
	in := append([]byte{}, raw...)
	var parsed any
	out := Guard(90*time.Second, func() error {
		var err error
		parsed, err = abi.QuoteToProto(in)
		return err
	})
	crashed := []string{}
	sigDerNote := ""
	if out.Panic != "" || out.Timeout {
		crashed = append(crashed, "abi.QuoteToProto")
	}
	for name, fn := range map[string]func() error{
		"verify.RawTdxQuote":   func() error { return verify.RawTdxQuote(append([]byte{}, raw...), &verify.Options{}) },
		"validate.RawTdxQuote": func() error { return validate.RawTdxQuote(append([]byte{}, raw...), &validate.Options{}) },
		// the raw-signature serialiser on whatever the input offers: all of it, its first 64 bytes, the bytes where a quote carries its signature
		"abi.SignatureToDER": func() error {
			cands := [][]byte{nil, append([]byte{}, raw...)}
			if len(raw) >= 64 {
				cands = append(cands, append([]byte{}, raw[:64]...))
			}
			if len(raw) >= 632+64 {
				cands = append(cands, append([]byte{}, raw[632:696]...))
			}
			for _, c := range cands {
				der, err := abi.SignatureToDER(c)
				if (err == nil) != (len(c) == 64) {
					sigDerNote = "abi.SignatureToDER: result/error does not follow the 64-byte rule"
				}
				if err == nil {
					var rs struct{ R, S *big.Int }
					rest, uerr := asn1.Unmarshal(der, &rs)
					if uerr != nil || len(rest) != 0 || rs.R.Cmp(new(big.Int).SetBytes(c[:32])) != 0 || rs.S.Cmp(new(big.Int).SetBytes(c[32:])) != 0 {
						sigDerNote = "abi.SignatureToDER: the DER does not decode to the (r, s) given"
					}
				}
			}
			return nil
		},
	} {
		if o := Guard(90*time.Second, fn); o.Panic != "" || o.Timeout {
			crashed = append(crashed, name)
		}
	}
	ev := Event{"ev": "Return", "result": out.Verdict(), "fieldsOk": false, "reserialOk": false, "prefixOk": false, "err": out.ErrText(), "crashed": crashed}
	if sigDerNote != "" {
		ev["notes"] = []string{sigDerNote}
	}
	if out.Verdict() != "accept" {
		if out.Verdict() == "reject" {
			ev["result"] = "reject"
		}
		return ev
	}
	m, ok := parsed.(*pb.QuoteV4)
	if !ok {
		return ev
	}
	if ref, ok := gen.Decode(raw); ok {
		ev["fieldsOk"] = proto.Equal(m, MsgFromQuote(ref))
	}
	var back []byte
	stable := true
	o2 := Guard(90*time.Second, func() error {
		var err error
		back, err = abi.QuoteToAbiBytes(m)
		if err != nil {
			return err
		}
		// the same message laid out differently in memory: both signatures are windows (with spare capacity) into one caller-owned array,
		// every other byte field has spare capacity filled with a canary; the bytes must be the same and the message must stay as it was
		laid := proto.Clone(m).(*pb.QuoteV4)
		withSpare(laid)
		if sd := laid.GetSignedData(); sd != nil && sd.GetCertificationData().GetQeReportCertificationData() != nil {
			arr := make([]byte, 0, 256)
			arr = append(arr, sd.Signature...)
			q := sd.CertificationData.QeReportCertificationData
			arr = append(arr, q.QeReportSignature...)
			arr = append(arr, bytes.Repeat([]byte{0x5c}, 64)...)
			sd.Signature = arr[:len(sd.Signature)]
			q.QeReportSignature = arr[len(sd.Signature) : len(sd.Signature)+len(q.QeReportSignature)]
		}
		before := proto.Clone(laid)
		back2, err2 := abi.QuoteToAbiBytes(laid)
		if err2 != nil || !bytes.Equal(back2, back) || !proto.Equal(before, laid) {
			stable = false
		}
		// what was returned belongs to the caller: serialising another quote afterwards (same goroutine) must not change it
		keep := append([]byte{}, back...)
		other := proto.Clone(m).(*pb.QuoteV4)
		for i := range other.TdQuoteBody.MrTd {
			other.TdQuoteBody.MrTd[i] ^= 0xa5
		}
		other.Header.UserData[0] ^= 0xff
		other.ExtraBytes = append(other.ExtraBytes, 0xee, 0xee)
		if _, err2 := abi.QuoteToAbiBytes(other); err2 != nil {
			return err2
		}
		stable = stable && bytes.Equal(back, keep)
		return nil
	})
	ev["reserialOk"] = o2.Verdict() == "accept" && bytes.Equal(back, raw) && stable
	var hb []byte
	o3 := Guard(90*time.Second, func() error {
		h, err := abi.HeaderToAbiBytes(m.GetHeader())
		if err != nil {
			return err
		}
		b, err := abi.TdQuoteBodyToAbiBytes(m.GetTdQuoteBody())
		hb = append(h, b...)
		return err
	})
	ev["prefixOk"] = o3.Verdict() == "accept" && len(raw) >= 632 && bytes.Equal(hb, raw[:632])
	// the parsed message must not alias the input
	for i := range in {
		in[i] ^= 0xff
	}
	if ref, ok := gen.Decode(raw); ok && !proto.Equal(m, MsgFromQuote(ref)) {
		ev["fieldsOk"] = false
	}
	return ev
}

// RunWireCase runs one wire case; in thorough tier or for the exact cases it also sweeps truncations.
func RunWireCase(cs map[string]any, id int, seed int64, sweep bool) Result {
	rng := rand.New(rand.NewSource(seed*6700417 + int64(id)))
	f := cs["f"].(map[string]any)
	a, e, chain := int(cs["a"].(float64)), int(cs["e"].(float64)), int(cs["chain"].(float64))
	raw := realiseWire(f, a, e, chain, rng)
	// the facts the parser machine works on are the fields as read back at the offsets the layout dictates
	evs := []Event{{"ev": "Call", "case": id, "input": cs, "facts": factsOf(raw)}, checkParsed(raw)}
	if sweep {
		// every truncation length of this byte string, judged by the same parser machine from the facts read back
		for t := 0; t < len(raw); t++ {
			cut := raw[:t]
			in := map[string]any{"f": toFloatMap(factsOf(cut)), "a": float64(a), "e": float64(e), "chain": float64(chain), "sweep": "truncate"}
			evs = append(evs, Event{"ev": "Call", "case": id, "input": in, "facts": factsOf(cut)}, checkParsed(cut))
		}
	}
	return Result{ID: id, Events: evs}
}

func init() {
	Drivers["wire"] = func(e Env) (*Summary, error) {
		cases, err := readRawCases(e.Cases)
		if err != nil {
			return nil, err
		}
		idx := make([]Case, len(cases))
		for i := range cases {
			idx[i] = Case{ID: i}
		}
		rs := RunParallel(idx, e.Workers, func(c Case) Result {
			cs := cases[c.ID]
			// sweep truncations of the exact (undeviated) quotes
			f := cs["f"].(map[string]any)
			exact := cs["exact"] == true
			_ = f
			return RunWireCase(cs, caseID(cs, c.ID), e.Seed, exact)
		})
		// seeded sweeps beyond the model's case list: real-size chains, large auth data
		extra := Result{ID: 0}
		rng := rand.New(rand.NewSource(e.Seed))
		nExtra := 40
		if e.Tier == "thorough" {
			nExtra = 400
		}
		for i := 0; i < nExtra; i++ {
			a := []int{0, 1, 32, 64, 1000, 65535}[rng.Intn(6)]
			ch := []int{0, 1, 3000, 4235, 20000}[rng.Intn(5)]
			ex := []int{0, 1, 17}[rng.Intn(3)]
			q := &gen.Quote{Header: gen.NewHeader(rng), Body: gen.RandBytes(rng, gen.BodySize), Sig: gen.RandBytes(rng, 64), AK: gen.RandBytes(rng, 64),
				QEReport: gen.RandBytes(rng, gen.QEReportSize), QESig: gen.RandBytes(rng, 64), Auth: gen.RandBytes(rng, a), Chain: gen.RandBytes(rng, ch), Extra: gen.RandBytes(rng, ex)}
			raw := q.Bytes()
			switch rng.Intn(4) {
			case 0: // random truncation
				raw = raw[:rng.Intn(len(raw)+1)]
			case 1: // random multi-byte mutation of a size/type field
				offs := []int{0, 2, 4, gen.OffSDSize, gen.OffCertType, gen.OffCertSize, gen.OffAuthSize, gen.OffAuthData + a, gen.OffAuthData + a + 2}
				o := offs[rng.Intn(len(offs))]
				raw[o] ^= byte(1 << uint(rng.Intn(8)))
			}
			in := map[string]any{"f": toFloatMap(factsOf(raw)), "a": float64(a), "e": float64(ex), "chain": float64(ch), "sweep": "random"}
			extra.Events = append(extra.Events, Event{"ev": "Call", "case": 1000000 + i, "input": in, "facts": factsOf(raw)}, checkParsed(raw))
		}
		rs = append(rs, extra)
		n, err := WriteTrace(e.Out, rs)
		if err != nil {
			return nil, err
		}
		s := summarise("wire", rs, n)
		seen := map[string]bool{}
		for _, r := range rs {
			for _, ev := range r.Events {
				if ns, ok := ev["notes"].([]string); ok {
					for _, nn := range ns {
						if !seen[nn] {
							seen[nn] = true
							s.Notes = append(s.Notes, nn)
						}
					}
				}
			}
		}
		return s, nil
	}
}

func init() {
	// prints the harness's own layout table (compared with the table of spec/QuoteWire.tla by the C09 check)
	Drivers["layout"] = func(e Env) (*Summary, error) {
		rs := []Result{{ID: 1, Events: []Event{{"ev": "Layout", "layout": gen.Layout}}}}
		n, err := WriteTrace(e.Out, rs)
		return &Summary{Driver: "layout", Events: n, Counts: map[string]int{}}, err
	}
}
