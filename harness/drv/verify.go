package drv

import (
	pb "github.com/google/go-tdx-guest/proto/tdx"
	"sync"
	"crypto/x509"
	"errors"
	"fmt"
	"os"
	"path/filepath"
	"time"

	ccpb "github.com/google/go-tdx-guest/proto/checkconfig"
	testcases "github.com/google/go-tdx-guest/testing"
	"github.com/google/go-tdx-guest/testing/testdata"

	"github.com/google/go-tdx-guest/verify"

	"verifharness/gen"
)

// VerifyOpts returns fresh verify.Options for a concrete world and an option setting.
func VerifyOpts(c *gen.Concrete, o map[string]any) *verify.Options {
	opts := &verify.Options{
		GetCollateral:    o["gc"] == true,
		CheckRevocations: o["cr"] == true,
		Getter:           c.Getter,
		TrustedRoots:     c.Pool,
	}
	if via := c.W.Get("rotVia"); via != "pool" {
		// the caller builds the pool from a RootOfTrust message; an unusable configuration leaves no options at all
		ro, err := rootOfTrustOptions(c, via, o)
		if err != nil {
			return nil
		}
		ro.Getter = c.Getter
		opts = ro
	}
	if o["now"] != "unset" {
		opts.Now = &verify.TimeSet{
			PckCertChain: c.Clocks["PckCertChain"], TcbInfo: c.Clocks["TcbInfo"], QeIdentity: c.Clocks["QeIdentity"],
			PckCrl: c.Clocks["PckCrl"], RootCaCrl: c.Clocks["RootCaCrl"],
		}
	}
	return opts
}

// ClassifyFetch maps a requested URL to (kind, ok) against the URLs the world expects.
func ClassifyFetch(c *gen.Concrete, u string) (string, bool) {
	switch {
	case u == c.TcbURL:
		return "tcb", true
	case u == c.QeURL:
		return "qe", true
	case u == c.PckCrlURL:
		return "pckcrl", true
	}
	for _, d := range c.RootCrlURLs {
		if u == d {
			return "rootcrl", true
		}
	}
	// right endpoint, wrong parameter?
	switch {
	case len(u) > 60 && u[:60] == gen.TcbInfoURL("")[:60]:
		return "tcb", false
	case len(u) > 50 && u[:50] == gen.PckCrlURL("")[:50]:
		return "pckcrl", false
	}
	return "other", false
}

// FetchEvents turns a getter log into Fetch events.
func FetchEvents(c *gen.Concrete) []Event {
	var out []Event
	for _, u := range c.Getter.Log {
		k, ok := ClassifyFetch(c, u)
		out = append(out, Event{"ev": "Fetch", "kind": k, "ok": ok, "url": u})
	}
	return out
}

// RunVerifyOnce runs one option setting against a concrete world and returns Call..Return events.
func RunVerifyOnce(c *gen.Concrete, id, sub int, o map[string]any, extra Event) []Event {
	return RunVerifyWith(c, nil, id, sub, o, extra)
}

// RunVerifyWith is RunVerifyOnce through a caller-supplied (re-used) Options value: its public fields are set for this
// call, its unexported per-call state is whatever earlier calls left behind.
// widen realises the msgWide dimension: a numeric field of the message gets bits beyond the width the wire format gives it,
// the low bits keep the genuine value (so every signature over the serialised bytes would still hold if the value were truncated).
func widen(m *pb.QuoteV4, c *gen.Concrete) {
	k := uint32(1+int(c.Raw[100])) << 16
	cd := m.GetSignedData().GetCertificationData()
	qrcd := cd.GetQeReportCertificationData()
	switch c.W.Get("msgWide") {
	case "none":
	case "version":
		m.Header.Version += k
	case "akType":
		m.Header.AttestationKeyType += k
	case "certType":
		cd.CertificateDataType += k
	case "pckCertType":
		qrcd.PckCertificateChainData.CertificateDataType += k
	case "authSize":
		qrcd.QeAuthData.ParsedDataSize += k
	case "isvProdId":
		qrcd.QeReport.IsvProdId += k
	case "isvSvn":
		qrcd.QeReport.IsvSvn += k
	case "isvSvnPlus65536":
		qrcd.QeReport.IsvSvn += 1 << 16
	default:
		panic("bad msgWide")
	}
}

var lastSet sync.Map // *verify.Options -> the flag settings its caller asked for last

func RunVerifyWith(c *gen.Concrete, reuse *verify.Options, id, sub int, o map[string]any, extra Event) []Event {
	evs, _ := RunVerifyWithOpts(c, reuse, id, sub, o, extra)
	return evs
}

// RunVerifyWithOpts also returns the options value the call went through (nil if the configuration was refused).
func RunVerifyWithOpts(c *gen.Concrete, reuse *verify.Options, id, sub int, o map[string]any, extra Event) ([]Event, *verify.Options) {
	c.Getter.Reset()
	opts := VerifyOpts(c, o)
	if opts == nil { // the root-of-trust configuration was refused: nothing can be verified under it
		call := Event{"ev": "Call", "case": id, "sub": sub, "w": FullWorld(c.W), "o": o}
		for k, v := range extra {
			call[k] = v
		}
		return []Event{call, {"ev": "Return", "verdict": "reject", "err": "RootOfTrustToOptions refused the configuration"}}, nil
	}
	if reuse != nil {
		// a caller who re-uses an Options value changes only what it wants changed: a flag that keeps its value from the previous call
		// is not assigned again (so a library call that altered it in between is not papered over)
		prev, _ := lastSet.Load(reuse)
		p, _ := prev.(map[string]any)
		if p == nil || p["gc"] != o["gc"] {
			reuse.GetCollateral = opts.GetCollateral
		}
		if p == nil || p["cr"] != o["cr"] {
			reuse.CheckRevocations = opts.CheckRevocations
		}
		lastSet.Store(reuse, map[string]any{"gc": o["gc"], "cr": o["cr"]})
		reuse.Getter, reuse.TrustedRoots = opts.Getter, opts.TrustedRoots
		if o["now"] != "unset" {
			reuse.Now = opts.Now
		} // "unset": the caller never touches Now; whatever the library left there stays
		opts = reuse
	}
	var out Outcome
	if o["entry"] == "msg" {
		m := MsgFromQuote(c.Q)
		widen(m, c)
		out = Guard(120*time.Second, func() error { return verify.TdxQuote(m, opts) })
	} else {
		raw := append([]byte{}, c.Raw...)
		out = Guard(120*time.Second, func() error { return verify.RawTdxQuote(raw, opts) })
	}
	call := Event{"ev": "Call", "case": id, "sub": sub, "w": FullWorld(c.W), "o": o}
	for k, v := range extra {
		call[k] = v
	}
	evs := []Event{call}
	evs = append(evs, FetchEvents(c)...)
	evs = append(evs, Event{"ev": "Return", "verdict": out.Verdict(), "err": out.ErrText()})
	return evs, opts
}

// VerifyCfg configures the verify-family driver.
type VerifyCfg struct {
	Seed     int64
	BitsPer  int // number of bit positions per mutated region (0 = all)
	AltSweep int // number of extra bit positions for *Alter=memberBit beyond the canonical one
	OnlyBit  *int // replay: exactly this bit of the mutated region
	MultiByte int // number of multi-byte mutation variants per mutated region (single-deviation worlds)
}

// RunVerifyCase realises one case and runs all of its option settings.
func RunVerifyCase(cs Case, cfg VerifyCfg) Result {
	res := Result{ID: cs.ID}
	w := gen.World(cs.W)
	seed := cfg.Seed*1_000_003 + int64(cs.ID)
	type variant struct {
		mutBit, altBit int
		multi          int
	}
	variants := []variant{{mutBit: 0, altBit: -1}}
	if w.Get("src") == "intel" {
		c := IntelConcrete(w)
		for i, o := range cs.Runs {
			if o["now"] == "unset" {
				continue
			}
			res.Events = append(res.Events, RunVerifyOnce(c, cs.ID, i, o, Event{})...)
		}
		return res
	}
	if w.Get("mut") != "none" {
		variants = nil
		probe := gen.Build(w, gen.Params{Seed: seed})
		if probe.Unrealizable != "" {
			res.Skip = probe.Unrealizable
			return res
		}
		n := probe.MutRegionBits
		bitsPer := cfg.BitsPer
		if bitsPer == 0 && len(cs.W) > 1 {
			bitsPer = 8 // every bit is swept for the mutation alone; combined with a second deviation a sample suffices
		}
		if cfg.OnlyBit != nil {
			variants = append(variants, variant{mutBit: *cfg.OnlyBit, altBit: -1})
		} else if bitsPer == 0 || bitsPer >= n {
			for b := 0; b < n; b++ {
				variants = append(variants, variant{mutBit: b, altBit: -1})
			}
		} else {
			// seeded, evenly spread with a seeded offset, always including first and last bit
			step := n / bitsPer
			off := int(seed % int64(step+1))
			variants = append(variants, variant{mutBit: 0, altBit: -1}, variant{mutBit: n - 1, altBit: -1})
			for b := off; b < n; b += step {
				variants = append(variants, variant{mutBit: b, altBit: -1})
			}
		}
	}
	if w.Get("mut") != "none" && cfg.MultiByte > 0 && len(cs.W) == 1 && cfg.OnlyBit == nil {
		for i := 0; i < cfg.MultiByte; i++ { // seeded random multi-byte mutations confined to the region
			variants = append(variants, variant{mutBit: 1000 + i, altBit: -1, multi: 2 + i%7})
		}
	}
	if w.Get("tcbAlter") == "memberBit" || w.Get("qeAlter") == "memberBit" || w.Get("tcbAlter") == "sigBit" || w.Get("qeAlter") == "sigBit" {
		for i := 0; i < cfg.AltSweep; i++ {
			variants = append(variants, variant{mutBit: 0, altBit: int((seed + int64(i)*7919) % 100000)})
		}
	}
	sub := 0
	for vi, v := range variants {
		var cSet, cWall *gen.Concrete
		for _, o := range cs.Runs {
			var c *gen.Concrete
			if o["now"] == "unset" {
				if cWall == nil {
					cWall = gen.Build(w, gen.Params{Seed: seed, MutBit: v.mutBit, AltBit: v.altBit, MutMulti: v.multi, WallNow: true})
				}
				c = cWall
			} else {
				if cSet == nil {
					cSet = gen.Build(w, gen.Params{Seed: seed, MutBit: v.mutBit, AltBit: v.altBit, MutMulti: v.multi})
				}
				c = cSet
			}
			if c.Unrealizable != "" {
				res.Skip = c.Unrealizable
				continue
			}
			if err := gen.SelfCheck(c); err != nil {
				if cs.X["lenient"] == true { // randomly drawn combination beyond the enumerated budget: count it as unrealisable
					res.Skip = "self-check: " + err.Error()
					continue
				}
				panic(fmt.Sprintf("GENERATOR SELF-CHECK FAILED case %d world %v: %v", cs.ID, cs.W, err))
			}
			extra := Event{"real": vi*2 + map[bool]int{true: 1, false: 0}[o["now"] == "unset"]} // one realisation = one build of the world
			if w.Get("mut") != "none" {
				extra["bit"] = v.mutBit
				if v.multi > 0 {
					extra["multi"] = v.multi
				}
			}
			if v.altBit >= 0 {
				extra["altBit"] = v.altBit
			}
			res.Events = append(res.Events, RunVerifyOnce(c, cs.ID, sub, o, extra)...)
			sub++
		}
	}
	return res
}


// intelRefTime is the reference time at which the repository's sample quote and recorded collateral are in date.
var intelRefTime = time.Date(2023, time.July, 1, 1, 0, 0, 0, time.UTC)

// IntelConcrete realises src=intel worlds: the genuine Intel sample quote with the recorded PCS responses.
func IntelConcrete(w gen.World) *gen.Concrete {
	raw := append([]byte{}, testdata.RawQuote...)
	q, ok := gen.Decode(raw)
	if !ok {
		panic("sample quote does not follow the layout")
	}
	c := &gen.Concrete{W: w, Q: q, Raw: raw, Clocks: map[string]time.Time{}, T0: intelRefTime, FMSPC: "50806f000000", CA: "platform"}
	for _, n := range gen.ClockNames {
		c.Clocks[n] = intelRefTime
	}
	c.TcbURL, c.QeURL, c.PckCrlURL, c.RootCrlURLs = gen.TcbInfoURL(c.FMSPC), gen.QeIdentityURL(), gen.PckCrlURL("platform"), []string{gen.DefaultRootCrlURL}
	g := gen.NewGetter()
	for u, r := range testcases.TestGetter.Responses {
		g.Set(u, gen.Response{Header: r.Header, Body: r.Body})
	}
	c.Getter = g
	other := gen.NewPKI(gen.PKIOpts{T0: intelRefTime})
	switch w.Get("pool") {
	case "nil":
	case "empty":
		c.Pool = x509.NewCertPool()
	default: // any generated pool: an unrelated root with Intel's names
		c.Pool = x509.NewCertPool()
		c.Pool.AddCert(other.Root.Cert)
		c.PoolDERs = [][]byte{other.Root.DER}
	}
	return c
}


// RunHistoryCase runs one history: two calls in this process over worlds that share a seed (twin / faulty) or not (other platform).
func RunHistoryCase(cs map[string]any, id int, seed int64) Result {
	res := Result{ID: id}
	if cs["timed"] == true {
		return runStaleClockCase(cs, id, seed)
	}
	worlds := cs["worlds"].(map[string]any)
	toWorld := func(m any) gen.World {
		w := gen.World{}
		for k, v := range m.(map[string]any) {
			w[k] = v.(string)
		}
		return w
	}
	s1 := seed*999983 + int64(id)*2 + 1
	built := map[string]*gen.Concrete{}
	get := func(wid string) *gen.Concrete {
		if c, ok := built[wid]; ok {
			return c
		}
		sd := s1
		if wid == "B" {
			sd = s1 + 1
		}
		if ww := toWorld(worlds[wid]); ww.Get("src") == "intel" {
			built[wid] = IntelConcrete(ww)
			return built[wid]
		}
		c := gen.Build(toWorld(worlds[wid]), gen.Params{Seed: sd, MutBit: int((int64(id) * 2654435761) & 0x7fffffff)})
		if c.Unrealizable == "" {
			if err := gen.SelfCheck(c); err != nil {
				panic(fmt.Sprintf("GENERATOR SELF-CHECK FAILED history case %d world %s: %v", id, wid, err))
			}
		}
		built[wid] = c
		return c
	}
	var shared *verify.Options
	if cs["shared"] == true {
		shared = &verify.Options{}
	}
	rotDir, err := os.MkdirTemp("", "verif-rot-hist-")
	if err != nil {
		panic(err)
	}
	defer os.RemoveAll(rotDir)
	for i, st := range cs["hist"].([]any) {
		step := st.(map[string]any)
		c := get(step["wid"].(string))
		c.RotDir = rotDir
		if c.Unrealizable != "" {
			res.Skip = c.Unrealizable
			return Result{ID: id, Skip: c.Unrealizable}
		}
		entry, _ := step["entry"].(string)
		if entry == "" {
			entry = "msg"
		}
		o := map[string]any{"gc": step["gc"], "cr": step["cr"], "now": "set", "entry": entry}
		evs, used := RunVerifyWithOpts(c, shared, id, i, o, Event{"wid": step["wid"], "shared": cs["shared"]})
		evs[0]["input"] = cs
		res.Events = append(res.Events, evs...)
		if i == 0 && cs["mid"] == "addRoot" && used != nil && used.TrustedRoots != nil && c.W.Get("rotVia") != "pool" {
			// the owner of the first options value adds a root to *its* pool (the one RootOfTrustToOptions built for it): that is its own
			// business and must not be visible in a pool built later from the same configuration
			home := c.A
			if c.W.Get("leafPki") == "B" {
				home = c.B
			}
			used.TrustedRoots.AddCert(home.Root.Cert)
		}
		if i == 0 && cs["mid"] == "levels" && shared != nil {
			// the reporting call between the two verifications, through the same Options value; what it returns is not judged here
			// (C04 / TcbLevels judge it), only that it leaves the options as the caller set them
			m := MsgFromQuote(c.Q)
			Guard(120*time.Second, func() error { _, _, err := verify.SupportedTcbLevelsFromCollateral(m, shared); return err })
		}
	}
	return res
}

func init() {
	Drivers["history"] = func(e Env) (*Summary, error) {
		cases, err := readRawCases(e.Cases)
		if err != nil {
			return nil, err
		}
		idx := make([]Case, len(cases))
		for i := range cases {
			idx[i] = Case{ID: i}
		}
		rs := RunParallel(idx, e.Workers, func(c Case) Result { return RunHistoryCase(cases[c.ID], caseID(cases[c.ID], c.ID), e.Seed) })
		n, err := WriteTrace(e.Out, rs)
		if err != nil {
			return nil, err
		}
		s := summarise("history", rs, n)
		for _, r := range rs {
			for _, ev := range r.Events {
				if ev["ev"] == "Return" {
					s.Counts["verdict:"+ev["verdict"].(string)]++
				}
			}
		}
		return s, nil
	}
}


// runStaleClockCase: Options.Now is nil ("use the wall clock"). The PCK leaf expires about two seconds after the first
// call; the second call, 3.5 s later through the same Options value (or a fresh one), happens after the expiry and is
// logged as the world time=leaf_after judged at the wall clock.
func runStaleClockCase(cs map[string]any, id int, seed int64) Result {
	res := Result{ID: id}
	c := gen.Build(gen.World{}, gen.Params{Seed: seed*31 + int64(id), WallNow: true, LeafExpiresIn: 2 * time.Second})
	var shared *verify.Options
	if cs["shared"] == true {
		shared = &verify.Options{}
	}
	o := map[string]any{"gc": false, "cr": false, "now": "unset", "entry": "msg"}
	if cs["firstFails"] == true {
		// the first call asks for collateral and fails while fetching it (the TCB Info response has no issuer-chain header)
		c1 := gen.Build(gen.World{"tcbHdr": "missing"}, gen.Params{Seed: seed*31 + int64(id), WallNow: true, LeafExpiresIn: 2 * time.Second})
		o1 := map[string]any{"gc": true, "cr": false, "now": "unset", "entry": "msg"}
		res.Events = append(res.Events, RunVerifyWith(c1, shared, id, 0, o1, Event{"wid": "W-fetch-fails", "shared": cs["shared"], "input": cs})...)
	} else {
		res.Events = append(res.Events, RunVerifyWith(c, shared, id, 0, o, Event{"wid": "T", "shared": cs["shared"], "input": cs})...)
	}
	time.Sleep(3500 * time.Millisecond)
	c.W = gen.World{"time": "leaf_after"}
	res.Events = append(res.Events, RunVerifyWith(c, shared, id, 1, o, Event{"wid": "T-later", "shared": cs["shared"], "input": cs})...)
	return res
}


// rootOfTrustOptions builds the verification options the way a configuration-driven caller does: verify.RootOfTrustToOptions
// over bundle files and / or inline PEM listing exactly the certificates of the world's pool.
func rootOfTrustOptions(c *gen.Concrete, via string, o map[string]any) (*verify.Options, error) {
	dir := c.RotDir
	if dir == "" {
		d, err := os.MkdirTemp("", "verif-rot-")
		if err != nil {
			panic(err)
		}
		dir = d
		defer os.RemoveAll(dir)
	}
	rot := &ccpb.RootOfTrust{GetCollateral: o["gc"] == true, CheckCrl: o["cr"] == true}
	file := func(i int, content []byte) string {
		p := filepath.Join(dir, fmt.Sprintf("bundle%d.pem", i))
		if c.RotDir != "" { // replaced in place: same path, same length (PEM ignores what surrounds its blocks), same modification time
			for len(content) < 4096 {
				content = append(content, '\n')
			}
		}
		if err := os.WriteFile(p, content, 0o600); err != nil {
			panic(err)
		}
		if c.RotDir != "" {
			at := time.Unix(1700000000, 0)
			os.Chtimes(p, at, at)
		}
		return p
	}
	switch via {
	case "files":
		for i, der := range c.PoolDERs {
			rot.CabundlePaths = append(rot.CabundlePaths, file(i, gen.PEMCert(der)))
		}
	case "inline":
		for _, der := range c.PoolDERs {
			rot.Cabundles = append(rot.Cabundles, string(gen.PEMCert(der)))
		}
	case "mixed":
		for i, der := range c.PoolDERs {
			if i%2 == 0 {
				rot.CabundlePaths = append(rot.CabundlePaths, file(i, gen.PEMCert(der)))
			} else {
				rot.Cabundles = append(rot.Cabundles, string(gen.PEMCert(der)))
			}
		}
	case "fileEmpty":
		rot.CabundlePaths = []string{file(0, []byte("\n"))}
	case "inlineNonPem":
		rot.Cabundles = []string{"this is not PEM"}
	default:
		panic("bad rotVia " + via)
	}
	var opts *verify.Options
	out := Guard(90*time.Second, func() error {
		var err error
		opts, err = verify.RootOfTrustToOptions(rot)
		return err
	})
	if out.Panic != "" || out.Timeout {
		panic("RootOfTrustToOptions crashed: " + out.ErrText())
	}
	if out.Err != nil {
		return nil, out.Err
	}
	if opts == nil {
		return nil, errors.New("no options")
	}
	return opts, nil
}
