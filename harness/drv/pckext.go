package drv

import (
	"crypto/x509/pkix"
	"bytes"
	"encoding/hex"
	"math/big"
	"math/rand"
	"sync"
	"time"

	"github.com/google/go-tdx-guest/pcs"

	"verifharness/gen"
)

var tcbCanon = []string{"c1", "c2", "c3", "c4", "c5", "c6", "c7", "c8", "c9", "c10", "c11", "c12", "c13", "c14", "c15", "c16", "pcesvn", "cpusvn"}

func tcbOrder(name string, rng *rand.Rand) []string {
	s := append([]string{}, tcbCanon...)
	sw := func(i, j int) { s[i-1], s[j-1] = s[j-1], s[i-1] }
	switch name {
	case "canon":
	case "swap12":
		sw(1, 2)
	case "swap1x16":
		sw(1, 16)
	case "swap16x17":
		sw(16, 17)
	case "swap17x18":
		sw(17, 18)
	case "rot1":
		s = append(s[1:], s[0])
	case "rot9":
		s = append(s[9:], s[:9]...)
	case "rev":
		for i, j := 0, len(s)-1; i < j; i, j = i+1, j-1 {
			s[i], s[j] = s[j], s[i]
		}
	case "random":
		rng.Shuffle(len(s), func(i, j int) { s[i], s[j] = s[j], s[i] })
	default:
		panic("bad tcb order " + name)
	}
	return s
}

func tcbIndex(kind string) int {
	for i, k := range tcbCanon {
		if k == kind {
			return i + 1
		}
	}
	return 0
}

// RunPckExtCase builds one certificate and runs pcs.PckCertificateExtensions on it.
func RunPckExtCase(cs map[string]any, id int, seed int64) Result {
	rng := rand.New(rand.NewSource(seed*2750159 + int64(id)))
	c := cs
	str := func(k string) string { return c[k].(string) }
	target, dev, cls, structural := str("target"), str("dev"), str("cls"), str("struct")

	okComp := []int64{0, 1, 127, 128, 255, int64(rng.Intn(256))}
	okPce := []int64{0, 255, 256, 65535, int64(rng.Intn(65536))}
	v := gen.SgxValues{PPID: gen.RandBytes(rng, 16), CPUSvn: gen.RandBytes(rng, 16), PCEID: gen.RandBytes(rng, 2), FMSPC: gen.RandBytes(rng, 6)}
	for i := range v.Comp {
		v.Comp[i] = okComp[rng.Intn(len(okComp))]
	}
	v.PCESvn = okPce[rng.Intn(len(okPce))]
	alt := v // second value set for dupOther
	alt.PPID, alt.PCEID, alt.FMSPC, alt.CPUSvn = gen.RandBytes(rng, 16), gen.RandBytes(rng, 2), gen.RandBytes(rng, 6), gen.RandBytes(rng, 16)
	for i := range alt.Comp {
		alt.Comp[i] = (v.Comp[i] + 1 + int64(rng.Intn(200))) % 256
	}
	alt.PCESvn = (v.PCESvn + 1 + int64(rng.Intn(60000))) % 65536

	if dev == "class" && cls == "derLike" {
		// a right-sized value whose bytes read as the complete DER of a shorter octet string (04 <len-2> ...): it is the value, as it stands
		val := map[string][]byte{"ppid": v.PPID, "pceid": v.PCEID, "fmspc": v.FMSPC, "cpusvn": v.CPUSvn}[target]
		val[0], val[1] = 0x04, byte(len(val)-2)
	}
	// "unknown OID": any last arc outside the defined ones, including the boundary arcs 0, 19, 127/128 and large ones
	oddArcs := []int{0, 19, 20, 127, 128, 255, 256, 16383, 16384, 1 << 30}
	unknownElem := func() []byte {
		arcs := []int{0, 6, 7, 9, 127, 128, 1 << 20}
		return gen.Seq(gen.OID(1, 2, 840, 113741, 1, 13, 1, arcs[rng.Intn(len(arcs))]), gen.Enum(rng.Intn(3)))
	}
	unknownTcbElem := func() []byte { return gen.ElemInt(gen.TcbCompOID(oddArcs[rng.Intn(len(oddArcs))]), int64(rng.Intn(256))) }

	octetOID := map[string][]int{"ppid": gen.OidPPID, "pceid": gen.OidPCEID, "fmspc": gen.OidFMSPC}
	octetVal := func(vals gen.SgxValues, k string) []byte {
		return map[string][]byte{"ppid": vals.PPID, "pceid": vals.PCEID, "fmspc": vals.FMSPC}[k]
	}
	// one element with a deviating value class
	classElem := func(k string) []byte {
		switch {
		case k == "ppid" || k == "pceid" || k == "fmspc":
			val := octetVal(v, k)
			switch cls {
			case "badLen":
				if rng.Intn(2) == 0 {
					return gen.ElemOctet(octetOID[k], val[:len(val)-1])
				}
				return gen.ElemOctet(octetOID[k], append(cp(val), 0x5a))
			case "derLike":
				return gen.ElemOctet(octetOID[k], val)
			case "badType":
				return gen.Seq(gen.OID(octetOID[k]...), gen.Int(int64(val[0])))
			case "nested":
				return gen.ElemOctet(octetOID[k], gen.Octet(val))
			case "trailing":
				return gen.Seq(gen.OID(octetOID[k]...), gen.Octet(val), gen.Null())
			}
		case k == "cpusvn":
			switch cls {
			case "badLen":
				if rng.Intn(2) == 0 {
					return gen.ElemOctet(gen.TcbCompOID(18), v.CPUSvn[:15])
				}
				return gen.ElemOctet(gen.TcbCompOID(18), append(cp(v.CPUSvn), 1))
			case "derLike":
				return gen.ElemOctet(gen.TcbCompOID(18), v.CPUSvn)
			case "badType":
				return gen.ElemInt(gen.TcbCompOID(18), 7)
			case "trailing":
				return gen.Seq(gen.OID(gen.TcbCompOID(18)...), gen.Octet(v.CPUSvn), gen.Null())
			}
		default: // c1..c16, pcesvn
			idx := tcbIndex(k)
			big := []int64{256, 65535, 65536}
			if k == "pcesvn" {
				big = []int64{65536, 1 << 31}
			}
			switch cls {
			case "tooBig":
				return gen.ElemInt(gen.TcbCompOID(idx), big[rng.Intn(len(big))])
			case "negative":
				return gen.ElemInt(gen.TcbCompOID(idx), []int64{-1, -128, -256}[rng.Intn(3)])
			case "badType": // any universal or context-specific type other than INTEGER
				alts := [][]byte{gen.Octet([]byte{5}), gen.Null(), gen.Bool(true), gen.Enum(5), gen.UTF8("5"), gen.TLV(0x80, []byte{5}), gen.Seq(gen.Int(5)), gen.TLV(0xa0, gen.Int(5))}
				return gen.Seq(gen.OID(gen.TcbCompOID(idx)...), alts[rng.Intn(len(alts))])
			case "trailing":
				real := v.PCESvn
				if idx <= 16 {
					real = v.Comp[idx-1]
				}
				return gen.Seq(gen.OID(gen.TcbCompOID(idx)...), gen.Int(real), gen.Null())
			}
		}
		panic("unrealisable class " + cls + " for " + k)
	}
	tcbElem := func(vals gen.SgxValues, k string) []byte {
		idx := tcbIndex(k)
		switch {
		case idx <= 16:
			return gen.ElemInt(gen.TcbCompOID(idx), vals.Comp[idx-1])
		case idx == 17:
			return gen.ElemInt(gen.TcbCompOID(17), vals.PCESvn)
		}
		return gen.ElemOctet(gen.TcbCompOID(18), vals.CPUSvn)
	}
	buildTcb := func(vals gen.SgxValues) []byte {
		var elems [][]byte
		for _, k := range tcbOrder(str("tcbOrder"), rng) {
			e := tcbElem(vals, k)
			if k == target {
				switch dev {
				case "class":
					e = classElem(k)
				case "missing":
					e = unknownTcbElem()
					if idx := tcbIndex(k); idx <= 17 && id%3 == 0 {
						// an element *below* the missing one's OID (one or two more arcs) with a fitting value is not that element
						deeper := append(gen.TcbCompOID(idx), []int{0, 1, 7}[rng.Intn(3)])
						switch rng.Intn(3) {
						case 0:
							deeper = append(deeper, 1)
						case 1: // or a cousin: the same last arc under another branch of the SGX extension (...1.13.1.<x>.<n>, x # 2)
							deeper = append(append([]int{}, gen.OidSgx...), []int{1, 3, 7, 22}[rng.Intn(4)], idx)
						}
						e = gen.ElemInt(deeper, int64(rng.Intn(200)))
					}
				case "missingDup": // a neighbouring element twice instead of this one
					nb := "c3"
					if k == "c16" {
						nb = "c15"
					}
					if k == "pcesvn" {
						nb = "c9"
					}
					e = tcbElem(v, nb)
				case "dupSame":
					// keep the count at 18: the duplicate replaces nothing, so the sequence would have 19 elements;
					// instead duplicate in place of an unknown slot is impossible: emit both and drop nothing (19 -> error by count)
					elems = append(elems, e)
				case "dupOther":
					elems = append(elems, e)
					e = tcbElem(alt, k)
				}
			}
			elems = append(elems, e)
		}
		switch structural {
		case "tcb17":
			elems = elems[:17]
		case "tcb19":
			elems = append(elems, unknownTcbElem())
		}
		inner := gen.Seq(elems...)
		switch structural {
		case "trailingTcb":
			return gen.Seq(gen.OID(gen.OidTCB...), inner, gen.Null())
		case "tcbNotSeq":
			return gen.Seq(gen.OID(gen.OidTCB...), gen.Octet(inner[2:]))
		}
		return gen.Seq(gen.OID(gen.OidTCB...), inner)
	}
	var top [][]byte
	order := c["top"].([]any)
	extras := str("extras")
	if extras == "front" || extras == "both" {
		top = append(top, unknownElem())
	}
	for _, ki := range order {
		k := ki.(string)
		var e []byte
		if k == "tcb" {
			e = buildTcb(v)
		} else {
			e = gen.ElemOctet(octetOID[k], octetVal(v, k))
		}
		if k == target {
			switch dev {
			case "class":
				e = classElem(k)
			case "missing":
				e = unknownElem()
			case "missingDup":
				e = gen.ElemOctet(gen.OidPCEID, v.PCEID)
			case "dupSame":
				top = append(top, e)
			case "dupOther":
				top = append(top, e)
				e = gen.ElemOctet(octetOID[k], octetVal(alt, k))
			}
		}
		top = append(top, e)
	}
	if extras == "back" || extras == "both" {
		top = append(top, unknownElem())
	}
	ext := gen.Seq(top...)
	switch structural {
	case "truncated":
		ext = ext[:len(ext)-1-rng.Intn(len(ext)/2)]
	case "trailingTop":
		ext = append(ext, gen.Null()...)
	}
	spec := gen.CertSpec{CN: gen.CNPck, Serial: big.NewInt(int64(1000 + id)), NotBefore: time.Now().Add(-time.Hour), NotAfter: time.Now().Add(time.Hour),
		CRLDP: []string{"https://example/crl"}, SgxExt: ext}
	if structural == "absent" {
		spec.SgxExt = nil
		spec.DummyExt = true
	}
	k := gen.NewKey()
	ca := pckExtCA()
	spec.Pub, spec.SignKey, spec.Parent = &k.PublicKey, ca.Inter.Key, ca.Inter.Cert
	cert, _ := gen.Issue(spec)
	if len(cert.Extensions) != 6 {
		panic("generated PCK certificate does not have six extensions")
	}
	// the SGX extension may sit anywhere among the six (x509.CreateCertificate always writes it last; the library sees the parsed list)
	if pos := id % 6; pos != 5 && structural != "absent" {
		exts := append([]pkix.Extension{}, cert.Extensions...)
		sgxExt := exts[5]
		copy(exts[pos+1:], exts[pos:5])
		exts[pos] = sgxExt
		cert.Extensions = exts
	}
	var got *pcs.PckExtensions
	out := Guard(90*time.Second, func() error {
		var err error
		got, err = pcs.PckCertificateExtensions(cert)
		return err
	})
	match := func(vals gen.SgxValues) bool {
		if got == nil {
			return false
		}
		comps := make([]byte, 16)
		for i := range comps {
			comps[i] = byte(vals.Comp[i])
		}
		return got.PPID == hex.EncodeToString(vals.PPID) && got.PCEID == hex.EncodeToString(vals.PCEID) && got.FMSPC == hex.EncodeToString(vals.FMSPC) &&
			got.TCB.PCESvn == uint16(vals.PCESvn) && bytes.Equal(got.TCB.CPUSvn, vals.CPUSvn) && bytes.Equal(got.TCB.CPUSvnComponents, comps)
	}
	result := "error"
	switch out.Verdict() {
	case "panic", "timeout":
		result = out.Verdict()
	case "accept":
		result = "wrong"
		if match(v) {
			result = "values"
		} else if dev == "dupOther" {
			// either occurrence's value (for the duplicated element only)
			mixed := v
			switch target {
			case "ppid":
				mixed.PPID = alt.PPID
			case "pceid":
				mixed.PCEID = alt.PCEID
			case "fmspc":
				mixed.FMSPC = alt.FMSPC
			case "cpusvn":
				mixed.CPUSvn = alt.CPUSvn
			case "pcesvn":
				mixed.PCESvn = alt.PCESvn
			default:
				if i := tcbIndex(target); i >= 1 && i <= 16 {
					mixed.Comp[i-1] = alt.Comp[i-1]
				}
			}
			if match(mixed) {
				result = "values"
			}
		}
	}
	detail := out.ErrText()
	if result == "wrong" && got != nil {
		detail = "returned " + got.PPID + " pcesvn=" + itoa(int(got.TCB.PCESvn)) + " comps=" + hex.EncodeToString(got.TCB.CPUSvnComponents) + " pceid=" + got.PCEID + " fmspc=" + got.FMSPC
	}
	return Result{ID: id, Events: []Event{{"ev": "Call", "case": id, "input": cs, "ext": hex.EncodeToString(ext)}, {"ev": "Return", "result": result, "err": detail}}}
}

var (
	pckCAOnce sync.Once
	pckCA     *gen.PKI
)

func pckExtCA() *gen.PKI {
	pckCAOnce.Do(func() { pckCA = gen.NewPKI(gen.PKIOpts{T0: time.Now()}) })
	return pckCA
}

func itoa(i int) string { return big.NewInt(int64(i)).String() }

func init() {
	Drivers["pckext"] = func(e Env) (*Summary, error) {
		cases, err := readRawCases(e.Cases)
		if err != nil {
			return nil, err
		}
		idx := make([]Case, len(cases))
		for i := range cases {
			idx[i] = Case{ID: i}
		}
		rs := RunParallel(idx, e.Workers, func(c Case) Result { return RunPckExtCase(cases[c.ID], caseID(cases[c.ID], c.ID), e.Seed) })
		n, err := WriteTrace(e.Out, rs)
		if err != nil {
			return nil, err
		}
		return summarise("pckext", rs, n), nil
	}
}
