package drv

import (
	"bytes"
	"errors"
	"math/rand"
	"os"
	"os/exec"
	"path/filepath"
	"strings"
	"time"

	"verifharness/gen"
)

// The extendtool driver (spec/ExtendTool.tla): runs the real tools/extend binary (path in -arg) and records exit status, what it said and
// the stage its FATAL line belongs to. Where a configfs-tsm report interface exists the driver runs nothing (the tool would extend the
// machine's real registers): the specification's "absent" environment is the only one bound here.
func RunExtendToolCase(cs map[string]any, id int, seed int64, tool string) Result {
	rng := rand.New(rand.NewSource(seed*69621 + int64(id)))
	str := func(k string) string { return cs[k].(string) }
	dir, err := os.MkdirTemp("", "verif-extend-")
	if err != nil {
		panic(err)
	}
	defer os.RemoveAll(dir)
	var args []string
	var stdin []byte
	switch str("in") {
	case "stdinData":
		stdin = gen.RandBytes(rng, 1+rng.Intn(4000))
		if id%2 == 0 {
			args = append(args, "-in", "-") // the default says the same
		}
	case "stdinEmpty":
		stdin = []byte{}
	case "file", "fileEmpty":
		p := filepath.Join(dir, "events.log")
		data := []byte{}
		if str("in") == "file" {
			data = gen.RandBytes(rng, 1+rng.Intn(4000))
		}
		if err := os.WriteFile(p, data, 0o600); err != nil {
			panic(err)
		}
		args = append(args, "-in", p)
	case "fileMissing":
		args = append(args, "-in", filepath.Join(dir, "no-such.log"))
	case "directory":
		args = append(args, "-in", dir)
	default:
		panic("bad in " + str("in"))
	}
	switch str("index") {
	case "default":
	case "minus1":
		args = append(args, "-rtmr=-1")
	case "notNumber":
		args = append(args, "-rtmr=two")
	default:
		args = append(args, "-rtmr", str("index"))
	}
	if cs["quiet"] == true {
		args = append(args, "-quiet")
	}
	switch str("verbosity") {
	case "1":
		args = append(args, "-verbosity=1")
	case "notNumber":
		args = append(args, "-verbosity=lots")
	}
	cmd := exec.Command(tool, args...)
	var stderr, stdout bytes.Buffer
	cmd.Stderr, cmd.Stdout = &stderr, &stdout
	cmd.Stdin = bytes.NewReader(stdin)
	done := make(chan error, 1)
	if err := cmd.Start(); err != nil {
		panic(err)
	}
	go func() { done <- cmd.Wait() }()
	exit, hung := 0, false
	select {
	case err := <-done:
		var ee *exec.ExitError
		if errors.As(err, &ee) {
			exit = ee.ExitCode()
		} else if err != nil {
			panic(err)
		}
	case <-time.After(30 * time.Second):
		cmd.Process.Kill()
		hung = true
		exit = -2
	}
	se := stderr.String()
	said := "other"
	switch {
	case se == "":
		said = "nothing"
	case strings.Contains(se, "Usage of "):
		said = "usage"
	case strings.HasPrefix(se, "FATAL: ") && strings.Count(se, "\n") == 1:
		said = "fatal"
	}
	stage := "client"
	if strings.Contains(se, "could not open input file") || strings.Contains(se, "could not read") {
		stage = "read"
	} else if said == "usage" {
		stage = "flags"
	}
	tail := se
	if len(tail) > 300 {
		tail = tail[len(tail)-300:]
	}
	return Result{ID: id, Events: []Event{{"ev": "Call", "case": id, "input": cs, "tsmPresent": false},
		{"ev": "Return", "exit": exit, "crash": hung || strings.Contains(se, "panic:") || strings.Contains(se, "goroutine 1 ["), "said": said, "stage": stage,
			"stdoutLines": strings.Count(stdout.String(), "\n"), "stderr": tail, "result": "exit" + itoa(exit)}}}
}

func init() {
	Drivers["extendtool"] = func(e Env) (*Summary, error) {
		cases, err := readRawCases(e.Cases)
		if err != nil {
			return nil, err
		}
		if _, err := os.Stat("/sys/kernel/config/tsm/report"); err == nil {
			n, err := WriteTrace(e.Out, nil)
			if err != nil {
				return nil, err
			}
			s := summarise("extendtool", nil, n)
			s.Notes = append(s.Notes, "configfs-tsm is present on this machine: tools/extend is not run (it would extend real registers)")
			return s, nil
		}
		idx := make([]Case, len(cases))
		for i := range cases {
			idx[i] = Case{ID: i}
		}
		rs := RunParallel(idx, e.Workers, func(c Case) Result { return RunExtendToolCase(cases[c.ID], caseID(cases[c.ID], c.ID), e.Seed, e.Arg) })
		n, err := WriteTrace(e.Out, rs)
		if err != nil {
			return nil, err
		}
		return summarise("extendtool", rs, n), nil
	}
}
