package drv

import (
	"crypto/sha512"
	"crypto/x509"
	"encoding/binary"
	"github.com/google/go-tdx-guest/abi"
	pb "github.com/google/go-tdx-guest/proto/tdx"
	"github.com/google/go-tdx-guest/verify"
	"math/rand"
	"os"
	"path/filepath"
	"sort"
	"sync"
	"time"

	"github.com/google/go-eventlog/extract"
	"github.com/google/go-eventlog/proto/state"
	"github.com/google/go-eventlog/register"
	"github.com/google/go-eventlog/tcg"
	"github.com/google/go-tdx-guest/rtmr"

	"verifharness/gen"
)

type ccelSample struct {
	log, table, quote, nonce []byte
	measured                 []int
}

var (
	ccelOnce sync.Once
	ccelData ccelSample
)

func repoDir() string {
	if d := os.Getenv("VERIF_REPO"); d != "" {
		return d
	}
	return "/repo"
}

func loadCcel() ccelSample {
	ccelOnce.Do(func() {
		rd := func(n string) []byte {
			b, err := os.ReadFile(filepath.Join(repoDir(), "testing/testdata/ccel", n))
			if err != nil {
				panic(err)
			}
			return b
		}
		ccelData = ccelSample{log: rd("ccel_data.dat"), table: rd("ccel_table.dat"), quote: rd("cos-113-tdx-quote.dat"), nonce: rd("nonce.dat")}
		// which registers does the log have events for? (computed from the log with go-eventlog, a dependency, not the code under test)
		q, ok := gen.Decode(ccelData.quote)
		if !ok {
			panic("sample quote does not follow the layout")
		}
		bank := register.RTMRBank{}
		for i, n := range []string{"rtmr0", "rtmr1", "rtmr2", "rtmr3"} {
			bank.RTMRs = append(bank.RTMRs, register.RTMR{Index: i, Digest: gen.FieldOf("body", n, q.Body)})
		}
		events, err := tcg.ParseAndReplay(ccelData.log, bank.MRs(), tcg.ParseOpts{AllowPadding: true})
		if err != nil {
			panic("sample event log does not replay against the sample quote: " + err.Error())
		}
		set := map[int]bool{}
		for _, e := range events {
			set[int(e.MRIndex())-1] = true // CC measurement register k+1 is RTMR k (register 0 is MRTD)
		}
		for i := range set {
			ccelData.measured = append(ccelData.measured, i)
		}
		sort.Ints(ccelData.measured)
	})
	return ccelData
}

// logWithRtmr3 inserts one TCG_PCR_EVENT2 for CC measurement register 4 (RTMR3) right after the Spec ID event of the sample log and
// returns the log together with the RTMR3 value it replays to: SHA-384(0^48 || digest).
func logWithRtmr3(log []byte, rng *rand.Rand) ([]byte, []byte) {
	// first event: TCG_PCClientPCREvent { pcrIndex u32, eventType u32, digest[20], eventSize u32, event[eventSize] }
	first := 32 + int(binary.LittleEndian.Uint32(log[28:32]))
	digest := gen.RandBytes(rng, 48)
	data := []byte("verif: an event measured into RTMR3")
	var ev []byte
	ev = binary.LittleEndian.AppendUint32(ev, 4)          // CC MR index 4 = RTMR3
	ev = binary.LittleEndian.AppendUint32(ev, 0x0000000d) // EV_IPL
	ev = binary.LittleEndian.AppendUint32(ev, 1)          // one digest
	ev = binary.LittleEndian.AppendUint16(ev, 0x000c)     // TPM_ALG_SHA384
	ev = append(ev, digest...)
	ev = binary.LittleEndian.AppendUint32(ev, uint32(len(data)))
	ev = append(ev, data...)
	out := append(append(append([]byte{}, log[:first]...), ev...), log[first:]...)
	h := sha512.New384()
	h.Write(make([]byte, 48))
	h.Write(digest)
	return out, h.Sum(nil)
}

// RunCcelCase runs rtmr.ParseCcelWithTdQuote on the sample log with a quote rebuilt under a generated PKI.
func RunCcelCase(cs map[string]any, id int, seed int64, bits int) Result {
	rng := rand.New(rand.NewSource(seed*86028121 + int64(id)))
	s := loadCcel()
	sq, _ := gen.Decode(s.quote)
	res := Result{ID: id}
	flip := cs["f"].(string)
	variants := []int{-1}
	if flip != "none" {
		variants = nil
		if bits <= 0 || bits >= 384 {
			for b := 0; b < 384; b++ {
				variants = append(variants, b)
			}
		} else {
			variants = append(variants, 0, 383)
			for i := 0; i < bits; i++ {
				variants = append(variants, rng.Intn(384))
			}
		}
	}
	logBase, measured := s.log, s.measured
	var rtmr3 []byte
	if cs["lg"] == "withRtmr3" {
		logBase, rtmr3 = logWithRtmr3(s.log, rng)
		measured = []int{0, 1, 2, 3}
	}
	for _, bit := range variants {
		body := append([]byte{}, sq.Body...)
		if rtmr3 != nil {
			copy(gen.FieldOf("body", "rtmr3", body), rtmr3)
		}
		if bit >= 0 {
			reg := gen.FieldOf("body", map[string]string{"r0": "rtmr0", "r1": "rtmr1", "r2": "rtmr2", "r3": "rtmr3"}[flip], body)
			reg[bit/8] ^= 1 << uint(bit%8)
		}
		w := gen.World{"modBranch": "modOk"}
		switch cs["v"].(string) {
		case "none":
		case "qsigOtherKey":
			w["qsig"] = "otherKey"
		case "poolB":
			w["pool"] = "B"
		case "wrongCN":
			w["leafRole"] = "wrongCN"
		case "bindWrongHash":
			w["bind"] = "wrongHash"
		case "qeSignerForeign":
			w["qeSigner"] = "foreign"
		case "revokedLeaf":
			w["pckCrlRev"] = "leaf"
		}
		wseed := rng.Int63()
		c := gen.Build(w, gen.Params{Seed: wseed, Header: sq.Header, Body: body})
		if c.Unrealizable != "" {
			res.Skip = c.Unrealizable
			continue
		}
		opts := rtmr.TdxDefaultOpts(s.nonce)
		lvl := int(cs["lvl"].(float64))
		var priorEv Event
		if cs["prior"] == "sameOpts" {
			// the same options value first serves the genuine quote of this platform (same keys and certificates)
			c0 := gen.Build(gen.World{"modBranch": "modOk"}, gen.Params{Seed: wseed, Header: sq.Header, Body: sq.Body})
			opts.Verification = VerifyOpts(c0, map[string]any{"gc": false, "cr": false})
			var st0 *state.FirmwareLogState
			o0 := Guard(120*time.Second, func() error {
				var err error
				st0, err = rtmr.ParseCcelWithTdQuote(s.log, s.table, MsgFromQuote(c0.Q), &opts)
				return err
			})
			r0 := "error"
			if o0.Verdict() == "accept" && st0 != nil {
				r0 = "state"
			}
			priorEv = Event{"ev": "Prior", "result": r0, "err": o0.ErrText()}
		}
		if vo := VerifyOpts(c, []map[string]any{{"gc": false, "cr": false}, {"gc": true, "cr": false}, {"gc": true, "cr": true}}[lvl]); priorEv != nil {
			// the very verify.Options object of the earlier call is used again: the caller only re-assigns its exported fields
			ov := opts.Verification
			ov.GetCollateral, ov.CheckRevocations, ov.Getter, ov.Now, ov.TrustedRoots = vo.GetCollateral, vo.CheckRevocations, vo.Getter, vo.Now, vo.TrustedRoots
		} else {
			opts.Verification = vo
		}
		if cs["ld"] == "unsupported" {
			opts.ExtractOpt = extract.Opts{}
		}
		switch cs["cf"] {
		case "pckCrlFails":
			opts.Verification.Getter = &failingGetter{inner: c.Getter, failing: "pckcrl", c: c}
		case "rootCrlFails":
			opts.Verification.Getter = &failingGetter{inner: c.Getter, failing: "rootcrl", c: c}
		}
		pol := opts.Validation
		switch cs["p"].(string) {
		case "ok":
		case "nonceDiffers":
			pol.TdQuoteBodyOptions.ReportData[rng.Intn(len(s.nonce))] ^= 0x01
		case "mrTdDiffers":
			pol.TdQuoteBodyOptions.MrTd = gen.RandBytes(rng, 48)
		case "rtmrExpectDiffers":
			pol.TdQuoteBodyOptions.Rtmrs = [][]byte{nil, gen.RandBytes(rng, 48), nil, nil}
		case "minQeAbove":
			pol.HeaderOptions.MinimumQeSvn = 65535
		case "minTeeLaterAbove":
			tee := gen.FieldOf("body", "tee_tcb_svn", body)
			m := append([]byte{}, tee...)
			i, j := -1, -1
			for k := range m {
				if m[k] > 0 && i < 0 {
					i = k
				} else if i >= 0 && m[k] < 255 {
					j = k
				}
			}
			if i < 0 || j < 0 {
				res.Skip = "no pair of TEE_TCB_SVN components to lower and raise"
				continue
			}
			m[i]--
			m[j]++
			pol.TdQuoteBodyOptions.MinimumTeeTcbSvn = m
		}
		msg := MsgFromQuote(c.Q)
		if v := cs["v"].(string); v == "intelNilPool" || v == "intelEmptyPool" {
			// the genuine sample quote under Intel's own chain, at a time inside the chain's validity
			q, err := abi.QuoteToProto(append([]byte{}, s.quote...))
			if err != nil {
				panic(err)
			}
			msg = q.(*pb.QuoteV4)
			ch, err := verify.ExtractChainFromQuote(msg)
			if err != nil {
				panic(err)
			}
			at := ch.PCKCertificate.NotBefore.Add(24 * time.Hour)
			vo := &verify.Options{Now: &verify.TimeSet{PckCertChain: at, PckCrl: at, RootCaCrl: at, TcbInfo: at, QeIdentity: at}}
			if v == "intelEmptyPool" {
				vo.TrustedRoots = x509.NewCertPool()
			}
			opts.Verification = vo
		}
		logBytes := logBase
		switch cs["lg"] {
		case "empty":
			logBytes = []byte{}
		case "nil":
			logBytes = nil
		}
		var st *state.FirmwareLogState
		out := Guard(120*time.Second, func() error {
			var err error
			st, err = rtmr.ParseCcelWithTdQuote(logBytes, s.table, msg, &opts)
			return err
		})
		result := ""
		switch {
		case out.Panic != "":
			result = "panic"
		case out.Timeout:
			result = "timeout"
		case out.Err == nil && st != nil:
			result = "state"
		case out.Err != nil && st == nil:
			result = "error"
		case out.Err != nil:
			result = "both"
		default:
			result = "neither"
		}
		res.Events = append(res.Events, Event{"ev": "Call", "case": id, "input": cs, "bit": bit, "measured": measured})
		if priorEv != nil {
			res.Events = append(res.Events, priorEv)
		}
		res.Events = append(res.Events, Event{"ev": "Return", "result": result, "err": out.ErrText()})
	}
	return res
}

func init() {
	Drivers["ccel"] = func(e Env) (*Summary, error) {
		cases, err := readRawCases(e.Cases)
		if err != nil {
			return nil, err
		}
		idx := make([]Case, len(cases))
		for i := range cases {
			idx[i] = Case{ID: i}
		}
		bits := 6
		if e.Tier == "thorough" {
			bits = 0
		}
		rs := RunParallel(idx, e.Workers, func(c Case) Result { return RunCcelCase(cases[c.ID], caseID(cases[c.ID], c.ID), e.Seed, bits) })
		n, err := WriteTrace(e.Out, rs)
		if err != nil {
			return nil, err
		}
		s := summarise("ccel", rs, n)
		s.Notes = append(s.Notes, "registers measured by the sample event log (computed from the log): "+itoaList(loadCcel().measured))
		return s, nil
	}
}

func itoaList(xs []int) string {
	out := ""
	for i, x := range xs {
		if i > 0 {
			out += ","
		}
		out += itoa(x)
	}
	return out
}
