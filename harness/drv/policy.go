package drv

import (
	"encoding/binary"
	"fmt"
	"math/rand"
	"strconv"
	"strings"
	"time"

	ccpb "github.com/google/go-tdx-guest/proto/checkconfig"
	pb "github.com/google/go-tdx-guest/proto/tdx"
	"github.com/google/go-tdx-guest/validate"

	"verifharness/gen"
)

func variant(rng *rand.Rand, state string, actual []byte) []byte {
	n := len(actual)
	switch state {
	case "unset":
		return nil
	case "empty":
		return []byte{}
	case "equal":
		return cp(actual)
	case "diffFirst":
		b := cp(actual)
		b[0] ^= byte(1 << uint(rng.Intn(8)))
		return b
	case "diffLast":
		b := cp(actual)
		b[n-1] ^= byte(1 << uint(rng.Intn(8)))
		return b
	case "short":
		return cp(actual[:n-1])
	case "long":
		return append(cp(actual), actual[0])
	}
	panic("bad byte state " + state)
}

func svnMin(state string, lo, hi byte) uint32 {
	l := uint32(lo) | uint32(hi)<<8
	b := uint32(hi) | uint32(lo)<<8
	switch state {
	case "zero":
		return 0
	case "equal":
		return l
	case "below":
		return l - 1
	case "betweenEndian":
		return b + 1 + (l-b-1)/2
	case "above":
		return l + 1
	case "max":
		return 65535
	case "big65536":
		return 65536
	case "bigMax32":
		return 0xffffffff
	}
	panic("bad svn state " + state)
}

// RunPolicyCase runs one Policy case (C08 / C14).
func RunPolicyCase(cs map[string]any, id int, seed int64) Result {
	rng := rand.New(rand.NewSource(seed*15485863 + int64(id)))
	c := cs["c"].(map[string]any)
	mode := cs["mode"].(string)
	st := func(d string) string { return c[d].(string) }

	q := gen.Build(gen.World{}, gen.Params{Seed: rng.Int63()}).Q
	// header SVNs with lo < hi so that byte order matters; never 0xFFFF
	lo, hi := byte(1+rng.Intn(100)), byte(120+rng.Intn(100))
	copy(gen.FieldOf("header", "qe_svn", q.Header), []byte{lo, hi})
	lo2, hi2 := byte(1+rng.Intn(100)), byte(120+rng.Intn(100))
	copy(gen.FieldOf("header", "pce_svn", q.Header), []byte{lo2, hi2})
	tee := gen.FieldOf("body", "tee_tcb_svn", q.Body)
	for i := range tee {
		tee[i] = byte(5 + rng.Intn(240))
	}
	bits := func(state string, base uint64) uint64 {
		switch {
		case state == "base" || state == "zero":
			return base
		case state == "clear0":
			return base &^ 1
		case state == "clear1":
			return base &^ 2
		case strings.HasPrefix(state, "set"):
			b, _ := strconv.Atoi(state[3:])
			return base | 1<<uint(b)
		}
		panic("bad bit state " + state)
	}
	binary.LittleEndian.PutUint64(gen.FieldOf("body", "xfam", q.Body), bits(st("xfamBits"), 3))
	binary.LittleEndian.PutUint64(gen.FieldOf("body", "td_attributes", q.Body), bits(st("tdAttrBits"), 0))
	msg := MsgFromQuote(q)
	raw := q.Bytes()
	body := msg.TdQuoteBody

	bytesOpt := map[string][]byte{
		"qeVendorId": variant(rng, st("qeVendorId"), msg.Header.QeVendorId), "mrSeam": variant(rng, st("mrSeam"), body.MrSeam),
		"tdAttributes": variant(rng, st("tdAttributes"), body.TdAttributes), "xfam": variant(rng, st("xfam"), body.Xfam),
		"mrTd": variant(rng, st("mrTd"), body.MrTd), "mrConfigId": variant(rng, st("mrConfigId"), body.MrConfigId),
		"mrOwner": variant(rng, st("mrOwner"), body.MrOwner), "mrOwnerConfig": variant(rng, st("mrOwnerConfig"), body.MrOwnerConfig),
		"reportData": variant(rng, st("reportData"), body.ReportData),
	}
	var rtmrs [][]byte
	four := func() [][]byte {
		return [][]byte{cp(body.Rtmrs[0]), cp(body.Rtmrs[1]), cp(body.Rtmrs[2]), cp(body.Rtmrs[3])}
	}
	switch s := st("rtmrs"); s {
	case "unset":
	case "allEqual":
		rtmrs = four()
	case "allEmpty":
		rtmrs = [][]byte{{}, nil, {}, nil}
	case "oneEmpty":
		rtmrs = four()
		rtmrs[rng.Intn(4)] = nil
	case "diff1", "diff2", "diff3", "diff4":
		rtmrs = four()
		i := int(s[4] - '1')
		rtmrs[i][rng.Intn(48)] ^= 0x40
	case "emptyThenDiff": // an unset entry before a mismatching one
		rtmrs = four()
		i := rng.Intn(3)
		rtmrs[i] = nil
		if rng.Intn(2) == 0 {
			rtmrs[i] = []byte{}
		}
		rtmrs[i+1+rng.Intn(3-i)][rng.Intn(48)] ^= 0x04
	case "diffThenEmpty":
		rtmrs = four()
		i := 1 + rng.Intn(3)
		rtmrs[i] = nil
		rtmrs[rng.Intn(i)][rng.Intn(48)] ^= 0x04
	case "emptyThenShort":
		rtmrs = four()
		rtmrs[0] = nil
		rtmrs[2] = rtmrs[2][:47]
	case "short2":
		rtmrs = four()
		rtmrs[1] = rtmrs[1][:47]
	case "long3":
		rtmrs = four()
		rtmrs[2] = append(rtmrs[2], 0)
	case "len1":
		rtmrs = four()[:1]
	case "len3":
		rtmrs = four()[:3]
	case "len5":
		rtmrs = append(four(), cp(body.Rtmrs[0]))
	default:
		panic("bad rtmrs state")
	}
	diffTd := func() []byte { b := cp(body.MrTd); b[rng.Intn(48)] ^= 1; return b }
	var any [][]byte
	switch st("anyMrTd") {
	case "unset":
	case "oneEqual":
		any = [][]byte{cp(body.MrTd)}
	case "diffThenEqual":
		any = [][]byte{diffTd(), diffTd(), cp(body.MrTd)}
	case "emptyEntry":
		any = [][]byte{diffTd(), {}}
	case "oneDiff":
		any = [][]byte{diffTd()}
	case "twoDiff":
		any = [][]byte{diffTd(), diffTd()}
	case "wrongSizeOnly":
		any = [][]byte{body.MrTd[:47]}
	case "wrongSizeThenEqual":
		any = [][]byte{body.MrTd[:47], cp(body.MrTd)}
	case "diffThenWrongSize":
		any = [][]byte{diffTd(), append(cp(body.MrTd), 0)}
	default:
		panic("bad anyMrTd state")
	}
	var minTee []byte
	switch st("minTee") {
	case "unset":
	case "allEqual":
		minTee = cp(tee)
	case "allBelow":
		minTee = cp(tee)
		for i := range minTee {
			minTee[i] -= byte(rng.Intn(5))
		}
	case "empty":
		minTee = []byte{}
	case "aboveFirst":
		minTee = cp(tee)
		minTee[0]++
	case "aboveSecond":
		minTee = cp(tee)
		minTee[1]++
	case "aboveLast":
		minTee = cp(tee)
		minTee[15]++
	case "belowThenAbove": // an earlier component is above its minimum, a later one below it
		minTee = cp(tee)
		i := rng.Intn(15)
		minTee[i]--
		minTee[i+1+rng.Intn(15-i)]++
	case "aboveThenBelow":
		minTee = cp(tee)
		i := rng.Intn(15)
		minTee[i]++
		minTee[i+1+rng.Intn(15-i)]--
	case "above0Below1": // the first two components (module minor / major) in opposite directions
		minTee = cp(tee)
		minTee[0]++
		minTee[1]--
	case "below0Above1":
		minTee = cp(tee)
		minTee[0]--
		minTee[1]++
	case "aboveOnlyLastBelowRest": // every component but the last is above its minimum
		minTee = cp(tee)
		for i := 0; i < 15; i++ {
			minTee[i]--
		}
		minTee[15]++
	case "len1":
		minTee = cp(tee[:1])
	case "len15":
		minTee = cp(tee[:15])
	case "len17":
		minTee = append(cp(tee), 0)
	case "len17Above":
		minTee = append(cp(tee), 0)
		minTee[3]++
	default:
		panic("bad minTee state")
	}
	minQe, minPce := svnMin(st("minQe"), lo, hi), svnMin(st("minPce"), lo2, hi2)

	var opts *validate.Options
	result := ""
	detail := ""
	if mode == "policy" || mode == "policySparse" {
		pol := &ccpb.Policy{
			HeaderPolicy: &ccpb.HeaderPolicy{MinimumQeSvn: minQe, MinimumPceSvn: minPce, QeVendorId: bytesOpt["qeVendorId"]},
			TdQuoteBodyPolicy: &ccpb.TDQuoteBodyPolicy{MinimumTeeTcbSvn: minTee, MrSeam: bytesOpt["mrSeam"], TdAttributes: bytesOpt["tdAttributes"],
				Xfam: bytesOpt["xfam"], MrTd: bytesOpt["mrTd"], MrConfigId: bytesOpt["mrConfigId"], MrOwner: bytesOpt["mrOwner"],
				MrOwnerConfig: bytesOpt["mrOwnerConfig"], Rtmrs: rtmrs, ReportData: bytesOpt["reportData"], AnyMrTd: any},
		}
		if mode == "policySparse" { // sub-messages in which nothing is configured are absent
			if h := pol.HeaderPolicy; h.MinimumQeSvn == 0 && h.MinimumPceSvn == 0 && h.QeVendorId == nil {
				pol.HeaderPolicy = nil
			}
			if b := pol.TdQuoteBodyPolicy; b.MinimumTeeTcbSvn == nil && b.MrSeam == nil && b.TdAttributes == nil && b.Xfam == nil && b.MrTd == nil && b.MrConfigId == nil &&
				b.MrOwner == nil && b.MrOwnerConfig == nil && b.Rtmrs == nil && b.ReportData == nil && b.AnyMrTd == nil {
				pol.TdQuoteBodyPolicy = nil
			}
		}
		// whatever an earlier conversion of an empty policy returned belongs to that caller: writing into it must not show in later conversions
		Guard(90*time.Second, func() error {
			if po, err := validate.PolicyToOptions(&ccpb.Policy{}); err == nil && po != nil {
				po.TdQuoteBodyOptions.ReportData = gen.RandBytes(rng, 64)
				po.TdQuoteBodyOptions.MrTd = gen.RandBytes(rng, 48)
				po.HeaderOptions.MinimumQeSvn = 65535
			}
			if po, err := validate.PolicyToOptions(&ccpb.Policy{HeaderPolicy: &ccpb.HeaderPolicy{}, TdQuoteBodyPolicy: &ccpb.TDQuoteBodyPolicy{}}); err == nil && po != nil {
				po.TdQuoteBodyOptions.ReportData = gen.RandBytes(rng, 64)
				po.HeaderOptions.MinimumPceSvn = 65535
			}
			return nil
		})
		o := Guard(90*time.Second, func() error {
			var err error
			opts, err = validate.PolicyToOptions(pol)
			return err
		})
		switch o.Verdict() {
		case "panic", "timeout":
			result = o.Verdict()
			detail = o.ErrText()
		case "reject":
			result = "refused"
			detail = o.ErrText()
		}
	} else {
		opts = &validate.Options{
			HeaderOptions: validate.HeaderOptions{MinimumQeSvn: uint16(minQe), MinimumPceSvn: uint16(minPce), QeVendorID: bytesOpt["qeVendorId"]},
			TdQuoteBodyOptions: validate.TdQuoteBodyOptions{MinimumTeeTcbSvn: minTee, MrSeam: bytesOpt["mrSeam"], TdAttributes: bytesOpt["tdAttributes"],
				Xfam: bytesOpt["xfam"], MrTd: bytesOpt["mrTd"], MrConfigID: bytesOpt["mrConfigId"], MrOwner: bytesOpt["mrOwner"],
				MrOwnerConfig: bytesOpt["mrOwnerConfig"], Rtmrs: rtmrs, ReportData: bytesOpt["reportData"], AnyMrTd: any},
		}
	}
	rawSame := true
	switch c["quoteRtmrs"] { // a message with another number of RTMR entries (the byte form always has four)
	case "three":
		msg.TdQuoteBody.Rtmrs = msg.TdQuoteBody.Rtmrs[:3]
	case "none":
		msg.TdQuoteBody.Rtmrs = nil
	case "five":
		msg.TdQuoteBody.Rtmrs = append(msg.TdQuoteBody.Rtmrs, gen.RandBytes(rng, 48))
	}
	if result == "" && c["quoteRtmrs"] != nil && c["quoteRtmrs"] != "four" {
		o := Guard(90*time.Second, func() error { return validate.TdxQuote(msg, opts) })
		result = map[string]string{"accept": "ok", "reject": "reject", "panic": "panic", "timeout": "timeout"}[o.Verdict()]
		detail = o.ErrText()
	}
	if result == "" {
		o := Guard(90*time.Second, func() error { return validate.TdxQuote(msg, opts) })
		result = map[string]string{"accept": "ok", "reject": "reject", "panic": "panic", "timeout": "timeout"}[o.Verdict()]
		detail = o.ErrText()
		o2 := Guard(90*time.Second, func() error { return validate.RawTdxQuote(raw, opts) })
		rawSame = o2.Verdict() == o.Verdict()
	}
	_ = pb.QuoteV4{}
	evs := []Event{{"ev": "Call", "case": id, "input": cs}, {"ev": "Return", "result": result, "rawSame": rawSame, "err": detail}}
	return Result{ID: id, Events: evs}
}

func init() {
	Drivers["policy"] = func(e Env) (*Summary, error) {
		cases, err := readRawCases(e.Cases)
		if err != nil {
			return nil, err
		}
		idx := make([]Case, len(cases))
		for i := range cases {
			idx[i] = Case{ID: i}
		}
		rs := RunParallel(idx, e.Workers, func(c Case) Result { return RunPolicyCase(cases[c.ID], caseID(cases[c.ID], c.ID), e.Seed) })
		n, err := WriteTrace(e.Out, rs)
		if err != nil {
			return nil, err
		}
		_ = fmt.Sprint
		return summarise("policy", rs, n), nil
	}
}
