package drv

import (
	"bytes"
	"fmt"
	"math/rand"
	"os"
	"reflect"
	"sort"
	"strings"
	"sync"
	"time"

	"google.golang.org/protobuf/proto"

	"github.com/google/go-tdx-guest/abi"
	pb "github.com/google/go-tdx-guest/proto/tdx"
	"github.com/google/go-tdx-guest/validate"
	"github.com/google/go-tdx-guest/verify"

	"verifharness/gen"
)

const canary = 0xC5

// cell is one caller-owned byte slice observed up to its capacity.
type cell struct {
	name string
	ref  []byte // the slice as held by the owner
	snap []byte // copy of ref[:cap(ref)]
}

func snapshotBytes(name string, b []byte) cell {
	full := b[:cap(b)]
	return cell{name: name, ref: b, snap: append([]byte{}, full...)}
}

// walkBytes collects every []byte reachable from v (exported fields, pointers, slices of slices).
func walkBytes(prefix string, v reflect.Value, out *[]cell) {
	switch v.Kind() {
	case reflect.Ptr, reflect.Interface:
		if !v.IsNil() {
			walkBytes(prefix, v.Elem(), out)
		}
	case reflect.Struct:
		t := v.Type()
		for i := 0; i < v.NumField(); i++ {
			if t.Field(i).PkgPath != "" { // unexported (protobuf internals)
				continue
			}
			walkBytes(prefix+"."+t.Field(i).Name, v.Field(i), out)
		}
	case reflect.Slice:
		if v.Type().Elem().Kind() == reflect.Uint8 {
			if v.Len() > 0 || v.Cap() > 0 {
				*out = append(*out, snapshotBytes(prefix, v.Bytes()))
			}
			return
		}
		for i := 0; i < v.Len(); i++ {
			walkBytes(fmt.Sprintf("%s[%d]", prefix, i), v.Index(i), out)
		}
	}
}

// diffCells reports which cells changed: "live" (inside [0,len)) or "spare" (inside [len,cap)).
func diffCells(cells []cell) []string {
	set := map[string]bool{}
	for _, c := range cells {
		full := c.ref[:cap(c.ref)]
		for i := range full {
			if full[i] != c.snap[i] {
				if i < len(c.ref) {
					set["live"] = true
				} else {
					set["spare"] = true
				}
			}
		}
	}
	out := []string{}
	for k := range set {
		out = append(out, k)
	}
	sort.Strings(out)
	return out
}

// withSpare re-allocates every byte slice of the message with spare capacity filled with a canary.
func withSpare(m *pb.QuoteV4) {
	var cells []cell
	walkBytes("msg", reflect.ValueOf(m), &cells)
	re := func(b []byte) []byte {
		buf := bytes.Repeat([]byte{canary}, len(b)+96)
		copy(buf, b)
		return buf[:len(b)]
	}
	h, b, sd := m.Header, m.TdQuoteBody, m.SignedData
	h.QeSvn, h.PceSvn, h.QeVendorId, h.UserData = re(h.QeSvn), re(h.PceSvn), re(h.QeVendorId), re(h.UserData)
	b.TeeTcbSvn, b.MrSeam, b.MrSignerSeam, b.SeamAttributes, b.TdAttributes, b.Xfam = re(b.TeeTcbSvn), re(b.MrSeam), re(b.MrSignerSeam), re(b.SeamAttributes), re(b.TdAttributes), re(b.Xfam)
	b.MrTd, b.MrConfigId, b.MrOwner, b.MrOwnerConfig, b.ReportData = re(b.MrTd), re(b.MrConfigId), re(b.MrOwner), re(b.MrOwnerConfig), re(b.ReportData)
	for i := range b.Rtmrs {
		b.Rtmrs[i] = re(b.Rtmrs[i])
	}
	b.Rtmrs = append(make([][]byte, 0, 8), b.Rtmrs...) // the list of registers has spare slots too (nil behind its length)
	sd.Signature, sd.EcdsaAttestationKey = re(sd.Signature), re(sd.EcdsaAttestationKey)
	qc := sd.CertificationData.QeReportCertificationData
	qc.QeReportSignature = re(qc.QeReportSignature)
	qc.QeAuthData.Data = re(qc.QeAuthData.Data)
	qc.PckCertificateChainData.PckCertChain = re(qc.PckCertificateChainData.PckCertChain)
	r := qc.QeReport
	r.CpuSvn, r.Reserved1, r.Attributes, r.MrEnclave, r.Reserved2, r.MrSigner, r.Reserved3, r.Reserved4, r.ReportData = re(r.CpuSvn), re(r.Reserved1), re(r.Attributes), re(r.MrEnclave), re(r.Reserved2), re(r.MrSigner), re(r.Reserved3), re(r.Reserved4), re(r.ReportData)
	if m.ExtraBytes != nil {
		m.ExtraBytes = re(m.ExtraBytes)
	}
}

// messageOf produces the message of a concrete world in one of the three origins.
func messageOf(c *gen.Concrete, origin string) *pb.QuoteV4 {
	switch origin {
	case "parsed":
		q, err := abi.QuoteToProto(append([]byte{}, c.Raw...))
		if err != nil {
			panic(err)
		}
		return q.(*pb.QuoteV4)
	case "built":
		m := MsgFromQuote(c.Q)
		withSpare(m)
		return m
	case "sparse": // built field by field by a caller who leaves the size scalars at zero (verification and validation never read them)
		m := MsgFromQuote(c.Q)
		m.SignedDataSize = 0
		m.SignedData.CertificationData.Size = 0 // (the nested sizes are checked against their data by CheckQuoteV4 and stay)
		withSpare(m)
		return m
	case "protobuf":
		b, err := proto.Marshal(MsgFromQuote(c.Q))
		if err != nil {
			panic(err)
		}
		m := &pb.QuoteV4{}
		if err := proto.Unmarshal(b, m); err != nil {
			panic(err)
		}
		return m
	}
	panic("bad origin " + origin)
}

func spareBytes(b []byte) []byte {
	buf := bytes.Repeat([]byte{canary}, len(b)+64)
	copy(buf, b)
	return buf[:len(b)]
}

// validateOptsFor returns validation options that the message satisfies, every byte string with spare capacity.
func validateOptsFor(m *pb.QuoteV4) *validate.Options {
	b := m.TdQuoteBody
	return &validate.Options{
		HeaderOptions: validate.HeaderOptions{QeVendorID: spareBytes(m.Header.QeVendorId)},
		TdQuoteBodyOptions: validate.TdQuoteBodyOptions{MinimumTeeTcbSvn: spareBytes(make([]byte, 16)), MrSeam: spareBytes(b.MrSeam), MrTd: spareBytes(b.MrTd),
			MrConfigID: spareBytes(b.MrConfigId), MrOwner: spareBytes(b.MrOwner), MrOwnerConfig: spareBytes(b.MrOwnerConfig), ReportData: spareBytes(b.ReportData),
			Rtmrs: [][]byte{spareBytes(b.Rtmrs[0]), spareBytes(b.Rtmrs[1]), spareBytes(b.Rtmrs[2]), spareBytes(b.Rtmrs[3])}, AnyMrTd: [][]byte{spareBytes(b.MrTd)}},
	}
}

// runKind runs one call of the given kind; level cycles through the three option levels for verify.
func runKind(kind string, c *gen.Concrete, m *pb.QuoteV4, raw []byte, vopts *validate.Options, level int) Outcome {
	switch kind {
	case "verify":
		o := []map[string]any{{"gc": false, "cr": false}, {"gc": true, "cr": false}, {"gc": true, "cr": true}}[level%3]
		opts := VerifyOpts(c, o) // own options per call; the scripted getter is shared and goroutine-safe
		return Guard(120*time.Second, func() error { return verify.TdxQuote(m, opts) })
	case "validate":
		return Guard(120*time.Second, func() error { return validate.TdxQuote(m, vopts) })
	case "serialise":
		return Guard(120*time.Second, func() error { _, err := abi.QuoteToAbiBytes(m); return err })
	case "extract":
		return Guard(120*time.Second, func() error { _, err := verify.ExtractChainFromQuote(m); return err })
	case "parse":
		return Guard(120*time.Second, func() error { _, err := abi.QuoteToProto(raw); return err })
	}
	panic("bad kind " + kind)
}

// RunFootprintCase: deterministic before/after snapshot to capacity around one call of one kind on one origin.
func RunFootprintCase(cs map[string]any, id int, seed int64) Result {
	rng := rand.New(rand.NewSource(seed*1299709 + int64(id)))
	kind, origin := cs["kind"].(string), cs["origin"].(string)
	c := gen.Build(gen.World{"extra": "some", "modBranch": "modOk"}, gen.Params{Seed: rng.Int63()})
	m := messageOf(c, origin)
	raw := spareBytes(c.Raw)
	vopts := validateOptsFor(m)
	evs := []Event{{"ev": "Call", "case": id, "input": cs}}
	// tweak XFAM/TD_ATTRIBUTES-independent: validation may reject on the fixed masks; the footprint is what matters
	for level := 0; level < 3; level++ {
		var cells []cell
		walkBytes("msg", reflect.ValueOf(m), &cells)
		cells = append(cells, snapshotBytes("raw", raw))
		walkBytes("opts", reflect.ValueOf(vopts), &cells)
		whole := proto.Clone(m)
		out := runKind(kind, c, m, raw, vopts, level)
		mutated := diffCells(cells)
		if r := m.TdQuoteBody.GetRtmrs(); cap(r) > len(r) { // a slot behind the length of the register list was written
			for _, slot := range r[len(r):cap(r)] {
				if slot != nil {
					mutated = append(mutated, "spare-slot")
					break
				}
			}
		}
		if !proto.Equal(whole, m) && len(mutated) == 0 { // a scalar or a message field changed although no byte cell did
			mutated = append(mutated, "scalar")
		}
		evs = append(evs, Event{"ev": "Footprint", "kind": kind, "origin": origin, "level": level, "mutated": mutated, "cells": len(cells), "verdict": out.Verdict()})
		if out.Panic != "" || out.Timeout {
			evs = append(evs, Event{"ev": "Return", "result": out.Verdict(), "err": out.ErrText()})
			return Result{ID: id, Events: evs}
		}
		if kind != "verify" {
			break
		}
	}
	if kind == "parse" {
		// aliasing probe: overwrite the raw buffer after parsing; the parsed message must not change
		in := append([]byte{}, c.Raw...)
		q, err := abi.QuoteToProto(in)
		independent := err == nil
		if err == nil {
			before := proto.Clone(q.(*pb.QuoteV4))
			for i := range in {
				in[i] ^= 0xA5
			}
			independent = proto.Equal(before, q.(*pb.QuoteV4))
		}
		evs = append(evs, Event{"ev": "Alias", "independent": independent})
	}
	evs = append(evs, Event{"ev": "Return", "result": "ok"})
	return Result{ID: id, Events: evs}
}

// RunRaceCase: the listed call kinds run concurrently (several goroutines each) on one message; data-race reports of the
// race detector are counted from this process's stderr by the caller; verdicts are compared with the call run alone.
func RunRaceCase(cs map[string]any, id int, seed int64, iters int) Result {
	rng := rand.New(rand.NewSource(seed*15485867 + int64(id)))
	var kinds []string
	for _, k := range cs["kinds"].([]any) {
		kinds = append(kinds, k.(string))
	}
	origin := []string{"parsed", "built", "protobuf", "sparse"}[id%4]
	c := gen.Build(gen.World{"extra": "some", "modBranch": "modOk"}, gen.Params{Seed: rng.Int63()})
	m := messageOf(c, origin)
	raw := append([]byte{}, c.Raw...)
	vopts := validateOptsFor(m)
	alone := map[string]string{}
	for _, k := range kinds {
		for lvl := 0; lvl < 3; lvl++ {
			alone[fmt.Sprintf("%s/%d", k, lvl)] = runKind(k, c, m, raw, vopts, lvl).Verdict()
		}
	}
	stable := true
	var mu sync.Mutex
	var wg sync.WaitGroup
	start := make(chan struct{})
	perKind := 4
	for gi, k := range kinds {
		for r := 0; r < perKind; r++ {
			wg.Add(1)
			go func(k string, g int) {
				defer wg.Done()
				myOpts := validateOptsFor(m) // each goroutine its own options
				<-start
				for it := 0; it < iters; it++ {
					lvl := (it + g) % 3
					v := runKind(k, c, m, raw, myOpts, lvl).Verdict()
					if v != alone[fmt.Sprintf("%s/%d", k, lvl)] {
						mu.Lock()
						stable = false
						mu.Unlock()
					}
				}
			}(k, gi*perKind+r)
		}
	}
	close(start)
	wg.Wait()
	evs := []Event{{"ev": "Call", "case": id, "input": cs},
		{"ev": "Race", "kinds": kinds, "origin": origin, "goroutines": len(kinds) * perKind, "iterations": iters, "reports": -1, "verdictsStable": stable},
		{"ev": "Return", "result": "ok"}}
	return Result{ID: id, Events: evs}
}

func init() {
	Drivers["shared"] = func(e Env) (*Summary, error) {
		cases, err := readRawCases(e.Cases)
		if err != nil {
			return nil, err
		}
		var rs []Result
		iters := 30
		if e.Tier == "thorough" {
			iters = 400
		}
		raceCases := 0
		for i, cs := range cases {
			if cs["mode"] == "race" {
				raceCases++
				// sequential: race reports on stderr are attributed to the case by a marker line
				fmt.Fprintf(os.Stderr, "VERIF-RACE-CASE-BEGIN %d\n", caseID(cs, i))
				rs = append(rs, RunRaceCase(cs, caseID(cs, i), e.Seed, iters))
				fmt.Fprintf(os.Stderr, "VERIF-RACE-CASE-END %d\n", caseID(cs, i))
			} else {
				rs = append(rs, RunFootprintCase(cs, caseID(cs, i), e.Seed))
			}
		}
		n, err := WriteTrace(e.Out, rs)
		if err != nil {
			return nil, err
		}
		s := summarise("shared", rs, n)
		s.Counts["raceCases"] = raceCases
		_ = strings.TrimSpace
		return s, nil
	}
}
