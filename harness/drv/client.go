package drv

import (
	"bytes"
	"errors"
	"flag"
	"fmt"
	"io/fs"
	"math/rand"
	"os"
	"path/filepath"
	"sync"
	"syscall"
	"time"
	"unsafe"

	"google.golang.org/protobuf/proto"

	"github.com/google/go-tdx-guest/abi"
	"github.com/google/go-tdx-guest/client"
	labi "github.com/google/go-tdx-guest/client/linuxabi"
	pb "github.com/google/go-tdx-guest/proto/tdx"

	"verifharness/gen"
)

// ioctl numbers computed from the Linux UAPI definition (_IOWR('T', nr, size)), not from linuxabi's constants.
func iowr(nr, size uintptr) uintptr { return 3<<30 | size<<16 | uintptr('T')<<8 | nr }

var (
	iocReport = iowr(1, 64+1024) // struct tdx_report_req
	iocQuote  = iowr(2, 16)      // struct tdx_quote_req { u64 buf; u64 len }
)

type scriptedDevice struct {
	caseDev map[string]any
	rd      [64]byte
	report  [1024]byte
	quote   []byte
	written []byte // what the device wrote into the buffer (to its full extent)
	outLen  uint32
	events  []Event
}

func (d *scriptedDevice) Open(string) error { return nil }
func (d *scriptedDevice) Close() error      { return nil }

func resCode(s string) (uintptr, error) {
	switch s {
	case "err":
		return 0, errors.New("scripted ioctl failure (EIO)")
	case "r0":
		return 0, nil
	case "r1":
		return 1, nil
	case "r7":
		return 7, nil
	case "r8":
		return 8, nil
	case "r9":
		return 9, nil
	case "rWide":
		return uintptr(1) << 32, nil
	case "rTop":
		return uintptr(1) << 63, nil
	}
	panic("bad result code " + s)
}

func (d *scriptedDevice) Ioctl(cmd uintptr, arg any) (uintptr, error) {
	switch req := arg.(type) {
	case *labi.TdxReportReq:
		d.events = append(d.events, Event{"ev": "Ioctl", "cmd": "report", "cmdOk": cmd == iocReport, "rdOk": req.ReportData == d.rd})
		res, err := resCode(d.caseDev["rr"].(string))
		if err == nil && res == 0 {
			req.TdReport = d.report
		}
		return res, err
	case *labi.TdxQuoteReq:
		hdr, ok := req.Buffer.(*labi.TdxQuoteHdr)
		if !ok {
			d.events = append(d.events, Event{"ev": "Ioctl", "cmd": "quote", "cmdOk": false, "reportOk": false, "inLen": -1, "version": -1, "length": -1, "statusIn": -1, "outLenIn": -1})
			return 0, errors.New("scripted device: unexpected buffer type")
		}
		d.events = append(d.events, Event{"ev": "Ioctl", "cmd": "quote", "cmdOk": cmd == iocQuote,
			"reportOk": bytes.Equal(hdr.Data[:1024], d.report[:]), "inLen": int(hdr.InLen), "version": int(hdr.Version),
			"length": int(req.Length), "statusIn": int(hdr.Status), "outLenIn": int(hdr.OutLen)})
		res, err := resCode(d.caseDev["qr"].(string))
		if err != nil {
			return res, err
		}
		switch d.caseDev["st"].(string) {
		case "s0":
			hdr.Status = 0
		case "inflight":
			hdr.Status = 0xffffffffffffffff
		case "error":
			hdr.Status = 0x8000000000000000
		case "unavailable":
			hdr.Status = 0x8000000000000001
		case "other":
			hdr.Status = 5
		}
		if d.caseDev["buf"].(string) == "quote" {
			copy(hdr.Data[:], d.quote)
		}
		switch d.caseDev["ol"].(string) {
		case "zero":
			hdr.OutLen = 0
		case "one":
			hdr.OutLen = 1
		case "exact":
			hdr.OutLen = uint32(len(d.quote))
		case "buf":
			hdr.OutLen = uint32(len(hdr.Data))
		case "bufPlus1":
			hdr.OutLen = uint32(len(hdr.Data)) + 1
		case "max":
			hdr.OutLen = 0xffffffff
		case "unwritten": // the field keeps what the client sent
		}
		switch d.caseDev["len"] { // some drivers treat the request length as in/out
		case "raised":
			req.Length = 1 << 20
		case "zeroed":
			req.Length = 0
		}
		d.outLen = hdr.OutLen
		d.written = append([]byte{}, hdr.Data[:]...)
		return res, nil
	}
	d.events = append(d.events, Event{"ev": "Ioctl", "cmd": "unknown", "cmdOk": false})
	return 0, fmt.Errorf("scripted device: unexpected request %T", arg)
}

type scriptedProvider struct {
	kind    string
	bytes   []byte
	err     error
	rdOk    bool
	rd      [64]byte
	variant int // which error IsSupported gives when it says no
}

func (p *scriptedProvider) IsSupported() error {
	if p.kind == "unsupportedNoDevice" || p.kind == "unsupportedFileDevice" {
		// whatever the reason it gives (the real configfs provider returns the error of os.MkdirTemp): not supported means the device is tried
		switch p.variant % 5 {
		case 0:
			return errors.New("scripted provider: configfs-tsm not available")
		case 1:
			return &fs.PathError{Op: "mkdir", Path: "/sys/kernel/config/tsm/report/entry123", Err: syscall.EACCES}
		case 2:
			return fmt.Errorf("could not create report entry: %w", fs.ErrPermission)
		case 3:
			return &fs.PathError{Op: "mkdir", Path: "/sys/kernel/config/tsm/report/entry123", Err: syscall.EPERM}
		}
		return os.ErrNotExist
	}
	return nil
}

func (p *scriptedProvider) GetRawQuote(rd [64]byte) ([]uint8, error) {
	p.rdOk = rd == p.rd
	switch p.kind {
	case "bytes":
		return p.bytes, nil
	case "empty":
		return []byte{}, nil
	case "error":
		return nil, p.err
	case "both":
		return p.bytes, p.err
	}
	return nil, errors.New("unsupported")
}

var clientFlagMu sync.Mutex

// watchOpen reports whether path is opened while fn runs (inotify IN_OPEN).
func watchOpen(path string, fn func()) bool {
	fd, err := syscall.InotifyInit1(syscall.IN_NONBLOCK | syscall.IN_CLOEXEC)
	if err != nil {
		panic(err)
	}
	defer syscall.Close(fd)
	if _, err := syscall.InotifyAddWatch(fd, path, syscall.IN_OPEN); err != nil {
		panic(err)
	}
	fn()
	buf := make([]byte, 4096)
	n, _ := syscall.Read(fd, buf)
	for off := 0; n > 0 && off+syscall.SizeofInotifyEvent <= n; {
		ev := (*syscall.InotifyEvent)(unsafe.Pointer(&buf[off]))
		if ev.Mask&syscall.IN_OPEN != 0 {
			return true
		}
		off += syscall.SizeofInotifyEvent + int(ev.Len)
	}
	return false
}

var sampleQuote []byte

func clientQuote(rng *rand.Rand) []byte {
	// a structurally valid generated quote (parsable by abi.QuoteToProto) with random contents
	c := gen.Build(gen.World{}, gen.Params{Seed: rng.Int63()})
	return c.Raw
}

// RunClientCase runs one C15 case: GetRawQuote and GetQuote against the scripted environment.
func RunClientCase(cs map[string]any, id int, seed int64, tmp string) Result {
	rng := rand.New(rand.NewSource(seed*7919 + int64(id)))
	res := Result{ID: id}
	quote := clientQuote(rng)
	var rd [64]byte
	rng.Read(rd[:])
	call := Event{"ev": "Call", "case": id, "input": cs}
	evs := []Event{call}
	via := cs["via"].(string)

	mkDev := func() *scriptedDevice {
		d := &scriptedDevice{caseDev: cs["dev"].(map[string]any), rd: rd, quote: quote}
		r2 := rand.New(rand.NewSource(seed + int64(id)))
		r2.Read(d.report[:])
		return d
	}
	var raw []byte
	var out Outcome
	var target any
	var expectData []byte
	var prov *scriptedProvider
	opened := false
	// an earlier successful call in this process, on the goroutine of the call under test, with a longer quote of its own
	var prior func()
	if cs["prior"] == "good" {
		good := map[string]any{"rr": "r0", "qr": "r0", "st": "s0", "ol": "exact", "buf": "quote", "len": "kept"}
		pq := append(append([]byte{}, quote...), RandBytes(rng, 3000)...)
		var prd [64]byte
		rng.Read(prd[:])
		pd := &scriptedDevice{caseDev: good, rd: prd, quote: pq}
		rng.Read(pd.report[:])
		prior = func() {
			praw, perr := client.GetRawQuote(pd, prd)
			evs = append(evs, Event{"ev": "Prior", "kind": map[bool]string{true: "data", false: "error"}[perr == nil], "dataOk": bytes.Equal(praw, pq)})
		}
	}
	if pk, _ := cs["prior"].(string); pk == "provSupported" || pk == "provUnsupported" {
		// an earlier call through another provider whose answer to IsSupported is the given one
		pp := &scriptedProvider{kind: map[string]string{"provSupported": "bytes", "provUnsupported": "unsupportedNoDevice"}[pk], bytes: RandBytes(rng, 2000), err: errors.New("x")}
		var prd [64]byte
		rng.Read(prd[:])
		pp.rd = prd
		clientFlagMu.Lock()
		flag.Set("tdx_guest_device_path", filepath.Join(tmp, "does-not-exist"))
		var praw []byte
		po := Guard(90*time.Second, func() error {
			var err error
			praw, err = client.GetRawQuote(pp, prd)
			return err
		})
		clientFlagMu.Unlock()
		evs = append(evs, Event{"ev": "Prior", "kind": map[bool]string{true: "data", false: "error"}[po.Verdict() == "accept"], "dataOk": bytes.Equal(praw, pp.bytes)})
	}
	if via == "device" {
		d := mkDev()
		target = d
		out = Guard(90*time.Second, func() error {
			if prior != nil {
				prior()
			}
			var err error
			raw, err = client.GetRawQuote(d, rd)
			return err
		})
		evs = append(evs, d.events...)
		if d.written != nil && int64(d.outLen) <= int64(len(d.written)) {
			expectData = d.written[:d.outLen]
		}
	} else {
		prov = &scriptedProvider{kind: cs["prov"].(string), bytes: quote, err: errors.New("scripted provider failure"), rd: rd, variant: id}
		target = prov
		run := func() {
			out = Guard(90*time.Second, func() error {
				if prior != nil {
					prior()
				}
				var err error
				raw, err = client.GetRawQuote(prov, rd)
				return err
			})
		}
		switch prov.kind {
		case "unsupportedFileDevice":
			path := filepath.Join(tmp, fmt.Sprintf("fake-tdx-guest-%d", id))
			if err := os.WriteFile(path, []byte("not a device"), 0o600); err != nil {
				panic(err)
			}
			clientFlagMu.Lock()
			flag.Set("tdx_guest_device_path", path)
			opened = watchOpen(path, run)
			clientFlagMu.Unlock()
			os.Remove(path)
		case "unsupportedNoDevice":
			clientFlagMu.Lock()
			flag.Set("tdx_guest_device_path", filepath.Join(tmp, "does-not-exist"))
			run()
			clientFlagMu.Unlock()
		default:
			run()
		}
		if opened {
			evs = append(evs, Event{"ev": "Open"})
		}
		expectData = quote
		if prov.kind == "empty" {
			expectData = []byte{}
		}
	}
	kind := "error"
	switch {
	case out.Panic != "":
		kind = "panic"
	case out.Timeout:
		kind = "timeout"
	case out.Err == nil:
		kind = "data"
	case raw != nil:
		kind = "both"
	}
	dataOk := (kind == "data" || kind == "both") && expectData != nil && bytes.Equal(raw, expectData)
	if prov != nil && (prov.kind == "bytes" || prov.kind == "both" || prov.kind == "empty" || prov.kind == "error") {
		dataOk = dataOk && prov.rdOk
		if kind == "both" || kind == "error" {
			// the provider's error must come back verbatim
			if out.Err != prov.err {
				kind = "error-not-verbatim"
			}
		}
	}
	// GetQuote = Parse o GetRawQuote, on a fresh but identical environment
	parsedOk := true
	if kind != "panic" && kind != "timeout" && (via == "device" || (prov.kind != "unsupportedFileDevice" && prov.kind != "unsupportedNoDevice")) {
		var t2 any
		if via == "device" {
			t2 = mkDev()
		} else {
			t2 = &scriptedProvider{kind: prov.kind, bytes: quote, err: prov.err, rd: rd}
		}
		var q any
		o2 := Guard(90*time.Second, func() error {
			var err error
			q, err = client.GetQuote(t2, rd)
			return err
		})
		if o2.Panic != "" || o2.Timeout {
			parsedOk = false
		} else if out.Err != nil {
			parsedOk = o2.Err != nil
		} else {
			want, perr := abi.QuoteToProto(raw)
			if perr != nil {
				parsedOk = o2.Err != nil
			} else {
				parsedOk = o2.Err == nil && proto.Equal(q.(*pb.QuoteV4), want.(*pb.QuoteV4))
			}
		}
	}
	_ = target
	evs = append(evs, Event{"ev": "Return", "kind": kind, "dataOk": dataOk, "parsedOk": parsedOk, "len": len(raw), "err": out.ErrText()})
	res.Events = evs
	return res
}

func init() {
	Drivers["client"] = func(e Env) (*Summary, error) {
		cases, err := readRawCases(e.Cases)
		if err != nil {
			return nil, err
		}
		tmp, err := os.MkdirTemp("", "verif-client-")
		if err != nil {
			return nil, err
		}
		defer os.RemoveAll(tmp)
		rs := make([]Result, len(cases))
		// the device-path flag is process-global: run provider fall-back cases sequentially (they take the lock)
		idx := make([]Case, len(cases))
		for i := range cases {
			idx[i] = Case{ID: i}
		}
		out := RunParallel(idx, e.Workers, func(c Case) Result {
			id := c.ID + 1
			if v, ok := cases[c.ID]["id"].(float64); ok {
				id = int(v)
			}
			return RunClientCase(cases[c.ID], id, e.Seed, tmp)
		})
		copy(rs, out)
		n, err := WriteTrace(e.Out, rs)
		if err != nil {
			return nil, err
		}
		return summarise("client", rs, n), nil
	}
}
