package drv

import (
	"bytes"
	"crypto"
	"crypto/sha512"
	"fmt"
	"io/fs"
	"math/rand"
	"os"
	"sort"
	"strconv"
	"strings"
	"syscall"
	"time"

	"github.com/google/go-configfs-tsm/configfs/configfsi"
	"github.com/google/go-tdx-guest/rtmr"
)

// memTsm is an in-memory configfsi.Client that implements the RTMR subsystem: entries are
// directories, "index" binds an entry to a register, "digest" extends that register.
type memTsm struct {
	entries []*tsmEntry // creation order
	events  []Event
	known   map[string]int // digest bytes -> call number
	n       int
	rng     *rand.Rand
	fault   string // the write operation that fails during the current call: "mkdir" | "index" | "digest" | ""
}

type tsmEntry struct {
	name  string
	pos   int // 1-based creation position
	idx   int // -1 unbound
	ids   []int
	value []byte // real register value: SHA-384 extend chain
}

type dirEntry struct{ name string }

func (d dirEntry) Name() string               { return d.name }
func (d dirEntry) IsDir() bool                { return true }
func (d dirEntry) Type() fs.FileMode          { return fs.ModeDir }
func (d dirEntry) Info() (fs.FileInfo, error) { return nil, fmt.Errorf("not supported") }

func (t *memTsm) find(name string) *tsmEntry {
	for _, e := range t.entries {
		if e.name == name {
			return e
		}
	}
	return nil
}

func (t *memTsm) add(name string, idx int) *tsmEntry {
	e := &tsmEntry{name: name, pos: len(t.entries) + 1, idx: idx, value: make([]byte, 48)}
	t.entries = append(t.entries, e)
	return e
}

func (t *memTsm) MkdirTemp(dir, pattern string) (string, error) {
	t.n++
	name := configfsi.TempName(t.rng, pattern)
	for t.find(name) != nil {
		name += "x"
	}
	if t.fault == "mkdir" {
		t.events = append(t.events, Event{"ev": "Op", "op": "MkdirTemp", "entry": 0, "dir": dir, "failed": true})
		return "", fmt.Errorf("scripted TSM fault: mkdir: no space left on device")
	}
	e := t.add(name, -1)
	t.events = append(t.events, Event{"ev": "Op", "op": "MkdirTemp", "entry": e.pos, "dir": dir, "failed": false})
	return dir + "/" + name, nil
}

func (t *memTsm) ReadDir(dirname string) ([]os.DirEntry, error) {
	t.events = append(t.events, Event{"ev": "Op", "op": "ReadDir", "dir": dirname})
	var out []os.DirEntry
	for _, e := range t.entries {
		out = append(out, dirEntry{e.name})
	}
	sort.Slice(out, func(i, j int) bool { return out[i].Name() < out[j].Name() })
	return out, nil
}

func (t *memTsm) parse(name string) (*tsmEntry, string, error) {
	p, err := configfsi.ParseTsmPath(name)
	if err != nil {
		return nil, "", err
	}
	if p.Subsystem != "rtmrs" {
		return nil, "", fmt.Errorf("unexpected subsystem %q", p.Subsystem)
	}
	e := t.find(p.Entry)
	if e == nil {
		return nil, "", os.ErrNotExist
	}
	return e, p.Attribute, nil
}

func (t *memTsm) ReadFile(name string) ([]byte, error) {
	e, attr, err := t.parse(name)
	pos := 0
	if e != nil {
		pos = e.pos
	}
	t.events = append(t.events, Event{"ev": "Op", "op": "ReadFile", "entry": pos, "attr": attr})
	if err != nil {
		return nil, err
	}
	switch attr {
	case "index":
		if e.idx < 0 {
			return nil, fmt.Errorf("index not set")
		}
		return []byte(strconv.Itoa(e.idx) + "\n"), nil
	case "digest":
		return append([]byte{}, e.value...), nil
	case "tcg_map":
		return []byte("PCR[1]\n"), nil
	}
	return nil, os.ErrNotExist
}

func (t *memTsm) WriteFile(name string, contents []byte) error {
	e, attr, err := t.parse(name)
	pos := 0
	if e != nil {
		pos = e.pos
	}
	ev := Event{"ev": "Op", "op": "WriteFile", "entry": pos, "attr": attr, "len": len(contents), "val": -99, "digestOk": false, "failed": false}
	defer func() { t.events = append(t.events, ev) }()
	if err != nil {
		return err
	}
	switch attr {
	case "index":
		v, perr := strconv.Atoi(strings.TrimSpace(string(contents)))
		if perr != nil {
			return perr
		}
		ev["val"] = v
		if t.fault == "index" {
			ev["failed"] = true
			return fmt.Errorf("scripted TSM fault: index: input/output error")
		}
		e.idx = v
		return nil
	case "digest":
		id := t.known[string(contents)]
		ev["digestOk"] = id != 0 && len(contents) == 48
		if t.fault == "digest" {
			ev["failed"] = true
			return fmt.Errorf("scripted TSM fault: digest: permission denied")
		}
		if id == 0 {
			id = -1
		}
		e.ids = append(e.ids, id)
		h := sha512.New384()
		h.Write(e.value)
		h.Write(contents)
		e.value = h.Sum(nil)
		if t.fault == "digestLate" { // the extend took effect; the write is nevertheless reported as failed, once
			t.fault = ""
			ev["failed"] = true
			return &fs.PathError{Op: "write", Path: name, Err: syscall.EBUSY}
		}
		return nil
	}
	return fmt.Errorf("attribute %q is not writable", attr)
}

func (t *memTsm) RemoveAll(path string) error {
	t.events = append(t.events, Event{"ev": "Op", "op": "RemoveAll", "entry": 0})
	return nil
}

func (t *memTsm) regs() [][]int {
	out := make([][]int, 4)
	for i := range out {
		out[i] = []int{}
		for _, e := range t.entries {
			if e.idx == i {
				out[i] = append(out[i], e.ids...)
			}
		}
	}
	return out
}

// RunRtmrCase replays one history.
func RunRtmrCase(cs map[string]any, id int, seed int64) Result {
	rng := rand.New(rand.NewSource(seed*104729 + int64(id)))
	t := &memTsm{known: map[string]int{}, rng: rng}
	switch cs["init"].(string) {
	case "empty":
	case "unrelated":
		t.add("rtmr2-existing", 2)
	case "unbound":
		t.add("aaa-unbound", -1)
	case "bound0":
		t.add("rtmr0-existing", 0)
	case "two":
		t.add("zz-three", 3)
		t.add("aa-one", 1)
	default:
		panic("bad init state")
	}
	res := Result{ID: id}
	evs := []Event{{"ev": "Call", "case": id, "input": cs}}
	expect := make([][]byte, 4) // independent fold of the accepted digests
	for i := range expect {
		expect[i] = make([]byte, 48)
	}
	hist := cs["hist"].([]any)
	for k, ri := range hist {
		r := ri.(map[string]any)
		callNo := k + 1
		index := int(r["index"].(float64))
		switch { // codes for indices beyond 32 bits
		case index >= 2000000 && index < 2000100:
			index = 1<<62 + (index - 2000000)
		case index >= 1000000 && index < 1000100:
			index = 1<<32 + (index - 1000000)
		}
		if r["fault"] == nil {
			r["fault"] = "none"
		}
		t.fault = ""
		if f := r["fault"].(string); f != "none" {
			t.fault = f
		}
		evs = append(evs, Event{"ev": "Req", "r": r, "k": callNo})
		var out Outcome
		var digest []byte
		if r["kind"] == "digest" {
			digest = RandBytes(rng, int(r["dlen"].(float64)))
			if len(digest) > 0 {
				t.known[string(digest)] = callNo
			}
			out = Guard(90*time.Second, func() error { return rtmr.ExtendDigestClient(t, index, digest) })
		} else {
			var log []byte
			if r["log"] == "nonempty" {
				log = RandBytes(rng, 1+rng.Intn(200))
			} else if ls, _ := r["log"].(string); strings.HasPrefix(ls, "len") { // a log of exactly that many bytes
				n, err := strconv.Atoi(ls[3:])
				if err != nil {
					panic("bad log " + ls)
				}
				log = RandBytes(rng, n)
			} else if rng.Intn(2) == 0 {
				log = []byte{}
			}
			h, known := map[string]crypto.Hash{"sha384": crypto.SHA384, "sha256": crypto.SHA256, "sha512": crypto.SHA512, "sha3_384": crypto.SHA3_384,
				"blake2b_384": crypto.BLAKE2b_384, "sha512_256": crypto.SHA512_256, "sha1": crypto.SHA1, "zero": crypto.Hash(0), "unknown": crypto.Hash(31)}[r["hash"].(string)]
			if hn := r["hash"].(string); !known && strings.HasPrefix(hn, "h") {
				n, err := strconv.Atoi(hn[1:])
				if err != nil {
					panic("bad hash " + hn)
				}
				h = crypto.Hash(n)
			} else if !known {
				panic("bad hash " + hn)
			}
			s := sha512.Sum384(log)
			digest = s[:]
			t.known[string(digest)] = callNo
			// decoys: the other hashes of the same log must not be what gets written
			out = Guard(90*time.Second, func() error { return rtmr.ExtendEventLogClient(t, index, h, log) })
		}
		lateApplied := false // the scripted "reported as failed after taking effect" fault fired in this call
		for _, e := range t.events {
			if e["attr"] == "digest" && e["failed"] == true && r["fault"] == "digestLate" {
				lateApplied = true
			}
		}
		evs = append(evs, t.events...)
		t.events = nil
		kind := "ok"
		switch {
		case out.Panic != "":
			kind = "panic"
		case out.Timeout:
			kind = "timeout"
		case out.Err != nil:
			kind = "error"
		}
		if (kind == "ok" || (kind == "error" && lateApplied)) && index >= 0 && index <= 3 {
			h := sha512.New384()
			h.Write(expect[index])
			h.Write(digest)
			expect[index] = h.Sum(nil)
		}
		valuesOk := true
		for i := 0; i < 4; i++ {
			var v []byte
			for _, e := range t.entries {
				if e.idx == i {
					v = e.value
				}
			}
			if v == nil {
				v = make([]byte, 48)
			}
			valuesOk = valuesOk && bytes.Equal(v, expect[i])
		}
		evs = append(evs, Event{"ev": "Return", "kind": kind, "regs": t.regs(), "valuesOk": valuesOk, "err": out.ErrText()})
	}
	res.Events = evs
	return res
}

// RandBytes is a local helper (seeded filling).
func RandBytes(rng *rand.Rand, n int) []byte {
	b := make([]byte, n)
	rng.Read(b)
	return b
}

func init() {
	Drivers["rtmr"] = func(e Env) (*Summary, error) {
		cases, err := readRawCases(e.Cases)
		if err != nil {
			return nil, err
		}
		idx := make([]Case, len(cases))
		for i := range cases {
			idx[i] = Case{ID: i}
		}
		rs := RunParallel(idx, e.Workers, func(c Case) Result { return RunRtmrCase(cases[c.ID], caseID(cases[c.ID], c.ID), e.Seed) })
		n, err := WriteTrace(e.Out, rs)
		if err != nil {
			return nil, err
		}
		return summarise("rtmr", rs, n), nil
	}
}
