package drv

import (
	"bytes"
	"math/rand"
	"strconv"
	"time"

	"google.golang.org/protobuf/proto"

	"github.com/google/go-tdx-guest/abi"
	pb "github.com/google/go-tdx-guest/proto/tdx"
	"github.com/google/go-tdx-guest/rtmr"
	"github.com/google/go-tdx-guest/validate"
	"github.com/google/go-tdx-guest/verify"

	"verifharness/gen"
)

func resize(b []byte, how string) []byte {
	switch how {
	case "zero":
		return []byte{}
	case "minus1":
		return b[:len(b)-1]
	case "plus1":
		return append(cp(b), 0x77)
	}
	panic("bad length deviation " + how)
}

// applyDev applies one structural deviation to the message (and mirrors size/extra deviations on the reference quote).
// It returns the possibly replaced message (a typed nil for an absent quote).
func applyDev(m *pb.QuoteV4, q *gen.Quote, d map[string]any, rng *rand.Rand) *pb.QuoteV4 {
	kind, what, how := d["kind"].(string), d["what"].(string), d["how"].(string)
	sd := m.GetSignedData()
	cd := sd.GetCertificationData()
	qc := cd.GetQeReportCertificationData()
	qr := qc.GetQeReport()
	switch kind {
	case "none":
	case "absent":
		switch what {
		case "quote":
			return nil
		case "header":
			m.Header = nil
		case "body":
			m.TdQuoteBody = nil
		case "signedData":
			m.SignedData = nil
		case "certData":
			if sd != nil {
				sd.CertificationData = nil
			}
		case "qeCertData":
			if cd != nil {
				cd.QeReportCertificationData = nil
			}
		case "qeReport":
			if qc != nil {
				qc.QeReport = nil
			}
		case "authData":
			if qc != nil {
				qc.QeAuthData = nil
			}
		case "pckChain":
			if qc != nil {
				qc.PckCertificateChainData = nil
			}
		}
	case "len":
		h, b := m.GetHeader(), m.GetTdQuoteBody()
		ptrs := map[string]*[]byte{}
		if h != nil {
			ptrs["qe_svn"], ptrs["pce_svn"], ptrs["qe_vendor_id"], ptrs["user_data"] = &h.QeSvn, &h.PceSvn, &h.QeVendorId, &h.UserData
		}
		if b != nil {
			ptrs["tee_tcb_svn"], ptrs["mr_seam"], ptrs["mr_signer_seam"], ptrs["seam_attributes"] = &b.TeeTcbSvn, &b.MrSeam, &b.MrSignerSeam, &b.SeamAttributes
			ptrs["td_attributes"], ptrs["xfam"], ptrs["mr_td"], ptrs["mr_config_id"] = &b.TdAttributes, &b.Xfam, &b.MrTd, &b.MrConfigId
			ptrs["mr_owner"], ptrs["mr_owner_config"], ptrs["report_data"] = &b.MrOwner, &b.MrOwnerConfig, &b.ReportData
			if len(b.Rtmrs) == 4 {
				ptrs["rtmr0"], ptrs["rtmr3"] = &b.Rtmrs[0], &b.Rtmrs[3]
			}
		}
		if sd != nil {
			ptrs["signature"], ptrs["attestation_key"] = &sd.Signature, &sd.EcdsaAttestationKey
		}
		if qc != nil {
			ptrs["qe_report_signature"] = &qc.QeReportSignature
		}
		if qr != nil {
			ptrs["qe_cpu_svn"], ptrs["qe_reserved1"], ptrs["qe_attributes"], ptrs["qe_mr_enclave"] = &qr.CpuSvn, &qr.Reserved1, &qr.Attributes, &qr.MrEnclave
			ptrs["qe_reserved2"], ptrs["qe_mr_signer"], ptrs["qe_reserved3"], ptrs["qe_reserved4"], ptrs["qe_report_data"] = &qr.Reserved2, &qr.MrSigner, &qr.Reserved3, &qr.Reserved4, &qr.ReportData
		}
		if p, ok := ptrs[what]; ok {
			*p = resize(*p, how)
		}
	case "rtmrs":
		n, _ := strconv.Atoi(how)
		if b := m.GetTdQuoteBody(); b != nil {
			var r [][]byte
			for i := 0; i < n; i++ {
				r = append(r, gen.RandBytes(rng, 48))
			}
			b.Rtmrs = r
		}
	case "wide":
		switch what {
		case "version":
			if m.Header != nil {
				m.Header.Version = 65536 + 4
			}
		case "att_key_type":
			if m.Header != nil {
				m.Header.AttestationKeyType = 65536 + 2
			}
		case "cert_type":
			if cd != nil {
				cd.CertificateDataType = 65536 + 6
			}
		case "pck_type":
			if pc := qc.GetPckCertificateChainData(); pc != nil {
				pc.CertificateDataType = 65536 + 5
			}
		case "auth_size":
			if a := qc.GetQeAuthData(); a != nil {
				a.ParsedDataSize = 65536 + uint32(len(a.Data))
			}
		case "isv_prod_id":
			if qr != nil {
				qr.IsvProdId += 65536
			}
		case "isv_svn":
			if qr != nil {
				qr.IsvSvn += 65536
			}
		}
	case "type":
		switch what {
		case "version3":
			if m.Header != nil {
				m.Header.Version = 3
			}
		case "version5":
			if m.Header != nil {
				m.Header.Version = 5
			}
		case "keyType3":
			if m.Header != nil {
				m.Header.AttestationKeyType = 3
			}
		case "teeType0":
			if m.Header != nil {
				m.Header.TeeType = 0
			}
		case "certType5":
			if cd != nil {
				cd.CertificateDataType = 5
			}
		case "pckType6":
			if pc := qc.GetPckCertificateChainData(); pc != nil {
				pc.CertificateDataType = 6
			}
		}
	case "size":
		u32p := func(v uint32) *uint32 { return &v }
		switch what {
		case "authSizePlus1":
			if a := qc.GetQeAuthData(); a != nil {
				a.ParsedDataSize++
			}
		case "pckSizePlus1":
			if pc := qc.GetPckCertificateChainData(); pc != nil {
				pc.Size++
			}
		case "pckSizeZero":
			if pc := qc.GetPckCertificateChainData(); pc != nil {
				pc.Size = 0
			}
		case "sdSizePlus1":
			m.SignedDataSize++
			q.SignedDataSize = u32p(m.SignedDataSize)
		case "sdSizeZero":
			m.SignedDataSize = 0
			q.SignedDataSize = u32p(0)
		case "certSizePlus1":
			if cd != nil {
				cd.Size++
				q.CertSize = u32p(cd.Size)
			}
		case "certSizeZero":
			if cd != nil {
				cd.Size = 0
				q.CertSize = u32p(0)
			}
		}
	case "extra":
		if how == "some" {
			m.ExtraBytes = gen.RandBytes(rng, 1+rng.Intn(9))
			q.Extra = cp(m.ExtraBytes)
		} else {
			m.ExtraBytes = []byte{}
			q.Extra = nil
		}
	}
	return m
}

// RunMsgCase drives every entry point with one structurally deviating message.
func RunMsgCase(cs map[string]any, id int, seed int64) Result {
	rng := rand.New(rand.NewSource(seed*433494437 + int64(id)))
	conc := gen.Build(gen.World{"extra": "none"}, gen.Params{Seed: rng.Int63()})
	q := conc.Q
	q.Extra = nil
	m := MsgFromQuote(q)
	m = applyDev(m, q, cs["d1"].(map[string]any), rng)
	if m != nil {
		m = applyDev(m, q, cs["d2"].(map[string]any), rng)
	}
	var crashed, notes []string
	run := func(name string, noteOnly bool, fn func() error) Outcome {
		o := Guard(90*time.Second, fn)
		if o.Panic != "" || o.Timeout {
			if noteOnly {
				notes = append(notes, name)
			} else {
				crashed = append(crashed, name)
			}
		}
		return o
	}
	// --- C09 facts
	chk := run("abi.CheckQuoteV4", false, func() error { return abi.CheckQuoteV4(m) })
	check := map[string]string{"accept": "valid", "reject": "invalid"}[chk.Verdict()]
	if check == "" {
		check = chk.Verdict()
	}
	var out []byte
	ser := run("abi.QuoteToAbiBytes", false, func() error {
		var err error
		out, err = abi.QuoteToAbiBytes(m)
		return err
	})
	serial := map[string]string{"accept": "bytes", "reject": "error"}[ser.Verdict()]
	if serial == "" {
		serial = ser.Verdict()
	}
	bytesOk, round := false, "none"
	if serial == "bytes" {
		bytesOk = bytes.Equal(out, q.Bytes())
		var back any
		rb := run("abi.QuoteToProto", false, func() error {
			var err error
			back, err = abi.QuoteToProto(out)
			return err
		})
		round = "notSame"
		if rb.Verdict() == "accept" {
			if bm, ok := back.(*pb.QuoteV4); ok && proto.Equal(bm, m) {
				round = "same"
			}
		}
	}
	// --- C10: the other entry points
	run("abi.HeaderToAbiBytes", false, func() error { _, err := abi.HeaderToAbiBytes(m.GetHeader()); return err })
	run("abi.TdQuoteBodyToAbiBytes", false, func() error { _, err := abi.TdQuoteBodyToAbiBytes(m.GetTdQuoteBody()); return err })
	run("abi.EnclaveReportToAbiBytes", false, func() error {
		_, err := abi.EnclaveReportToAbiBytes(m.GetSignedData().GetCertificationData().GetQeReportCertificationData().GetQeReport())
		return err
	})
	run("verify.ExtractChainFromQuote", false, func() error { _, err := verify.ExtractChainFromQuote(m); return err })
	var lastOpts *verify.Options
	for _, o := range []map[string]any{{"gc": false, "cr": false}, {"gc": true, "cr": false}, {"gc": true, "cr": true}} {
		conc.Getter.Reset()
		opts := VerifyOpts(conc, o)
		lastOpts = opts
		run("verify.TdxQuote", false, func() error { return verify.TdxQuote(m, opts) })
	}
	run("verify.SupportedTcbLevelsFromCollateral", true, func() error { _, _, err := verify.SupportedTcbLevelsFromCollateral(m, lastOpts); return err })
	vopts := &validate.Options{TdQuoteBodyOptions: validate.TdQuoteBodyOptions{Rtmrs: [][]byte{gen.RandBytes(rng, 48), nil, gen.RandBytes(rng, 48), nil},
		MinimumTeeTcbSvn: make([]byte, 16), MrTd: gen.RandBytes(rng, 48), AnyMrTd: [][]byte{gen.RandBytes(rng, 48)}, ReportData: gen.RandBytes(rng, 64)},
		HeaderOptions: validate.HeaderOptions{MinimumQeSvn: 1, MinimumPceSvn: 1, QeVendorID: gen.RandBytes(rng, 16)}}
	run("validate.TdxQuote", false, func() error { return validate.TdxQuote(m, vopts) })
	run("rtmr.GetRtmrsFromTdQuote", true, func() error { _, err := rtmr.GetRtmrsFromTdQuote(m); return err })
	// the event-log entry point: verification gate first, so an arbitrary message must come back as an error
	run("rtmr.ParseCcelWithTdQuote", false, func() error {
		sample := loadCcel()
		po := rtmr.TdxDefaultOpts(sample.nonce)
		po.Verification = VerifyOpts(conc, map[string]any{"gc": false, "cr": false, "now": "set"})
		_, err := rtmr.ParseCcelWithTdQuote(sample.log, sample.table, m, &po)
		return err
	})
	run("rtmr.ParseCcelWithTdQuote(garbage log)", false, func() error {
		po := rtmr.TdxDefaultOpts(nil)
		po.Verification = VerifyOpts(conc, map[string]any{"gc": false, "cr": false, "now": "set"})
		_, err := rtmr.ParseCcelWithTdQuote(gen.RandBytes(rng, 300), gen.RandBytes(rng, 56), m, &po)
		return err
	})
	if crashed == nil {
		crashed = []string{}
	}
	ret := Event{"ev": "Return", "check": check, "serial": serial, "bytesOk": bytesOk, "round": round, "crashed": crashed, "result": check}
	if len(notes) > 0 {
		ret["notes"] = notes
	}
	return Result{ID: id, Events: []Event{{"ev": "Call", "case": id, "input": cs}, ret}}
}

func init() {
	Drivers["msg"] = func(e Env) (*Summary, error) {
		cases, err := readRawCases(e.Cases)
		if err != nil {
			return nil, err
		}
		idx := make([]Case, len(cases))
		for i := range cases {
			idx[i] = Case{ID: i}
		}
		rs := RunParallel(idx, e.Workers, func(c Case) Result { return RunMsgCase(cases[c.ID], caseID(cases[c.ID], c.ID), e.Seed) })
		n, err := WriteTrace(e.Out, rs)
		if err != nil {
			return nil, err
		}
		s := summarise("msg", rs, n)
		seen := map[string]bool{}
		for _, r := range rs {
			for _, ev := range r.Events {
				if ns, ok := ev["notes"].([]string); ok {
					for _, nn := range ns {
						if !seen[nn] {
							seen[nn] = true
							s.Notes = append(s.Notes, "entry point outside the property's list crashed on a structurally arbitrary message: "+nn)
						}
					}
				}
			}
		}
		return s, nil
	}
}
