package drv

import (
	"fmt"
	"math/rand"
	"time"

	"github.com/google/go-tdx-guest/pcs"
	"github.com/google/go-tdx-guest/verify"

	"verifharness/gen"
)

// RunTcbLevelsCase realises one TcbLevels case (C04 / C07) and runs verify.TdxQuote with collateral on it.
func RunTcbLevelsCase(cs map[string]any, id int, seed int64) Result {
	rng := rand.New(rand.NewSource(seed*514229 + int64(id)))
	kind := cs["kind"].(string)
	svn1 := int(cs["svn1"].(float64))
	w := gen.World{}
	if svn1 != 0 {
		w["modBranch"] = "modOk"
	}
	w["sgxOrder"] = []string{"canon", "reversed", "interleaved"}[id%3] // the platform's SVNs are found by OID, wherever the certificate lists them
	c := gen.Build(w, gen.Params{Seed: rng.Int63()})
	tee := gen.FieldOf("body", "tee_tcb_svn", c.Q.Body)
	call := Event{"ev": "Call", "case": id, "input": cs}
	if kind == "tcb" {
		spec := c.TcbSpec
		spec.Levels = nil
		for _, li := range cs["plat"].([]any) {
			l := li.(map[string]any)
			var pl gen.PlatLevel
			for i := 0; i < 16; i++ {
				pl.Sgx[i] = int(c.Sgx.Comp[i]) - rng.Intn(3)
				pl.Tdx[i] = int(tee[i]) - rng.Intn(3)
				if pl.Tdx[i] < 0 {
					pl.Tdx[i] = 0
				}
			}
			switch l["sgx"] {
			case "f0":
				pl.Sgx[0] = int(c.Sgx.Comp[0]) + 1
			case "f15":
				pl.Sgx[15] = int(c.Sgx.Comp[15]) + 1
			}
			switch l["pce"] {
			case "below":
				pl.Pce = int(c.Sgx.PCESvn) - 1 - rng.Intn(20)
			case "equal":
				pl.Pce = int(c.Sgx.PCESvn)
			case "above":
				pl.Pce = int(c.Sgx.PCESvn) + 1 + rng.Intn(200)*rng.Intn(2)
			}
			switch l["tdx"] {
			case "f0":
				pl.Tdx[0] = int(tee[0]) + 1
			case "f1":
				pl.Tdx[1] = int(tee[1]) + 1
			case "f2":
				pl.Tdx[2] = int(tee[2]) + 1
			case "f15":
				pl.Tdx[15] = int(tee[15]) + 1
			}
			pl.Status = l["st"].(string)
			spec.Levels = append(spec.Levels, pl)
		}
		m := cs["mod"].(map[string]any)
		spec.Identities = nil
		mkLevels := func() []gen.ModLevel {
			var out []gen.ModLevel
			for _, li := range m["lv"].([]any) {
				l := li.(map[string]any)
				v := int(tee[0])
				if l["rel"] == "le" {
					v -= rng.Intn(3)
				} else {
					v = above(v, rng)
				}
				out = append(out, gen.ModLevel{Isvsvn: v, Status: l["st"].(string)})
			}
			return out
		}
		switch m["id"] {
		case "absent":
		case "other":
			spec.Identities = []gen.ModIdentity{{ID: fmt.Sprintf("TDX_%02x", int(tee[1])+1), Levels: []gen.ModLevel{{Isvsvn: 0, Status: "UpToDate"}}}}
		case "match":
			spec.Identities = []gen.ModIdentity{{ID: "TDX_7f", Levels: []gen.ModLevel{{Isvsvn: 0, Status: "UpToDate"}}},
				{ID: fmt.Sprintf("TDX_%02x", tee[1]), Levels: mkLevels()}}
		}
		if len(spec.Levels) == 0 {
			// an empty list is refused earlier (C03); keep one level that can never match so that the selection itself is exercised
			var pl gen.PlatLevel
			for i := 0; i < 16; i++ {
				pl.Sgx[i], pl.Tdx[i] = 255, 255
			}
			pl.Pce, pl.Status = 65535, "UpToDate"
			spec.Levels = []gen.PlatLevel{pl}
		}
		c.SetTcbInfo(spec)
	} else {
		spec := c.QeSpec
		isv := spec.Levels[0].Isvsvn
		if isv < 4 || isv > 65000 {
			return Result{ID: id, Skip: "QE ISVSVN at the edge of its range"}
		}
		spec.Levels = nil
		for _, li := range cs["qe"].([]any) {
			l := li.(map[string]any)
			v := isv
			switch l["rel"] {
			case "lt":
				v = isv - 1 - rng.Intn(3)
			case "gt":
				v = above(isv, rng)
			}
			spec.Levels = append(spec.Levels, gen.ModLevel{Isvsvn: v, Status: l["st"].(string)})
		}
		if len(spec.Levels) == 0 {
			spec.Levels = []gen.ModLevel{{Isvsvn: isv + 1, Status: "UpToDate"}}
		}
		c.SetQeIdentity(spec)
	}
	msg := MsgFromQuote(c.Q)
	opts := VerifyOpts(c, map[string]any{"gc": true, "cr": false, "now": "set"})
	out := Guard(120*time.Second, func() error { return verify.TdxQuote(msg, opts) })
	report, reportStatus := "none", ""
	if kind == "tcb" && out.Panic == "" && !out.Timeout {
		var lvl pcs.TcbLevel
		o2 := Guard(120*time.Second, func() error {
			var err error
			lvl, _, err = verify.SupportedTcbLevelsFromCollateral(msg, opts)
			return err
		})
		switch o2.Verdict() {
		case "accept":
			report, reportStatus = "level", string(lvl.TcbStatus)
			if lvl.TcbStatus == "" {
				report = "emptyLevel"
			}
		case "reject":
			report = "error"
		default:
			report = o2.Verdict()
		}
	}
	ret := Event{"ev": "Return", "verdict": out.Verdict(), "report": report, "reportStatus": reportStatus, "err": out.ErrText()}
	return Result{ID: id, Events: []Event{call, ret}}
}

func init() {
	Drivers["tcblevels"] = func(e Env) (*Summary, error) {
		cases, err := readRawCases(e.Cases)
		if err != nil {
			return nil, err
		}
		idx := make([]Case, len(cases))
		for i := range cases {
			idx[i] = Case{ID: i}
		}
		rs := RunParallel(idx, e.Workers, func(c Case) Result { return RunTcbLevelsCase(cases[c.ID], caseID(cases[c.ID], c.ID), e.Seed) })
		n, err := WriteTrace(e.Out, rs)
		if err != nil {
			return nil, err
		}
		return summarise("tcblevels", rs, n), nil
	}
}

// above gives a level value greater than v: just above it, or far above it in ways that narrow arithmetic would fold back
// (equal to v modulo 2^16; beyond 2^31, where a signed 32-bit difference turns negative; the largest 32-bit value).
func above(v int, rng *rand.Rand) int {
	switch rng.Intn(5) {
	case 0:
		return v + 1<<16
	case 1:
		return v + 1<<31 + 1 + rng.Intn(1000)
	case 2:
		return 1<<32 - 1
	}
	return v + 1 + rng.Intn(300)
}
