package drv

import (
	"crypto/ecdsa"
	"encoding/json"
	"encoding/pem"
	"math/big"
	"math/rand"
	"net/url"
	"strings"
	"time"

	"github.com/google/go-tdx-guest/verify"

	"verifharness/gen"
)

func mustMap(b []byte) map[string]any {
	var m map[string]any
	if err := json.Unmarshal(b, &m); err != nil {
		panic(err)
	}
	return m
}

// jsonShape returns the response body for a JSON endpoint deviating as named. Altered members are re-signed by the
// honest signer so that verification goes on to *use* the odd values.
func jsonShape(shape, key string, member []byte, signer gen.Entity, honestBody []byte, rng *rand.Rand) []byte {
	m := mustMap(member)
	sign := func(raw []byte) []byte {
		return gen.Wrap([][2]string{{key, string(raw)}, {"signature", gen.SigHex(signer.Key, raw)}})
	}
	remarshal := func() []byte {
		b, err := json.Marshal(m)
		if err != nil {
			panic(err)
		}
		return sign(b)
	}
	levels := func() []any { l, _ := m["tcbLevels"].([]any); return l }
	firstTcb := func() map[string]any {
		if l := levels(); len(l) > 0 {
			t, _ := l[0].(map[string]any)["tcb"].(map[string]any)
			return t
		}
		return map[string]any{}
	}
	setSvn := func(v any) {
		t := firstTcb()
		if comps, ok := t["sgxtcbcomponents"].([]any); ok && len(comps) > 0 {
			comps[0].(map[string]any)["svn"] = v
		} else {
			t["isvsvn"] = v
		}
	}
	switch shape {
	case "ok":
		return honestBody
	case "empty":
		return []byte{}
	case "notJson":
		return []byte("<html><body>502 Bad Gateway</body></html>")
	case "jsonNull":
		return []byte("null")
	case "jsonArray":
		return []byte("[]")
	case "jsonNumber":
		return []byte("42")
	case "memberNull":
		return []byte(`{"` + key + `":null,"signature":"` + strings.Repeat("ab", 64) + `"}`)
	case "memberString":
		return []byte(`{"` + key + `":"text","signature":"` + strings.Repeat("ab", 64) + `"}`)
	case "memberArray":
		return []byte(`{"` + key + `":[1,2,3],"signature":"` + strings.Repeat("ab", 64) + `"}`)
	case "signatureNumber":
		return gen.Wrap([][2]string{{key, string(member)}, {"signature", "5"}})
	case "signatureMissing":
		return gen.Wrap([][2]string{{key, string(member)}})
	case "signatureOddHex":
		return gen.Wrap([][2]string{{key, string(member)}, {"signature", `"abc"`}})
	case "signatureShort":
		return gen.Wrap([][2]string{{key, string(member)}, {"signature", `"abcd"`}})
	case "versionString":
		m["version"] = "3"
	case "versionHuge":
		m["version"] = 300
	case "versionNegative":
		m["version"] = -1
	case "levelsNull":
		m["tcbLevels"] = nil
	case "levelsObject":
		m["tcbLevels"] = map[string]any{}
	case "svnOutOfRange":
		setSvn(1 << 33)
	case "svnNegative":
		setSvn(-1)
	case "svnString":
		setSvn("5")
	case "componentsShort":
		t := firstTcb()
		if comps, ok := t["sgxtcbcomponents"].([]any); ok {
			t["sgxtcbcomponents"] = comps[:15]
			t["tdxtcbcomponents"] = t["tdxtcbcomponents"].([]any)[:1]
		} else {
			delete(t, "isvsvn")
		}
	case "componentsLong":
		t := firstTcb()
		if comps, ok := t["sgxtcbcomponents"].([]any); ok {
			t["sgxtcbcomponents"] = append(comps, comps[0])
			t["tdxtcbcomponents"] = append(t["tdxtcbcomponents"].([]any), comps[0])
		} else {
			t["extra"] = []any{1, 2}
		}
	case "statusUnknown":
		levels()[0].(map[string]any)["tcbStatus"] = "Weird"
	case "statusNumber":
		levels()[0].(map[string]any)["tcbStatus"] = 3
	case "dateGarbage":
		m["nextUpdate"] = "yesterday"
	case "hexOdd":
		m["mrsigner"] = "abc"
		if tm, ok := m["tdxModule"].(map[string]any); ok {
			tm["mrsigner"] = "abc"
		}
	case "hexNotHex":
		m["mrsigner"] = "zz"
		if tm, ok := m["tdxModule"].(map[string]any); ok {
			tm["attributes"] = "nothex!!"
		}
	case "deeplyNested":
		return sign([]byte(strings.Repeat("[", 20000) + strings.Repeat("]", 20000)))
	case "truncated":
		return honestBody[:len(honestBody)/2]
	case "utf8Garbage":
		m["id"] = string([]byte{0xff, 0xfe, 0x00, 0x80})
	case "identityIdsOdd", "identityIdTypes": // identities whose id is bare, empty, not hex, of another type: listed before and instead of the matching one
		odd := []any{"TDX_", "", "TDX", "TDX_z", "TDX_0", "tdx_01", "TDX_\u0000", "TDX_0102"}
		if shape == "identityIdTypes" {
			odd = []any{7, nil, []any{}, map[string]any{}, true}
		}
		var ids []any
		for _, o := range odd {
			ids = append(ids, map[string]any{"id": o, "mrsigner": "", "attributes": "", "attributesMask": "", "tcbLevels": []any{}})
		}
		if old, ok := m["tdxModuleIdentities"].([]any); ok {
			m["tdxModuleIdentities"] = append(ids, old...)
		} else {
			m["tcbLevels"] = []any{map[string]any{"tcb": map[string]any{"isvsvn": "x"}, "tcbStatus": 3}}
		}
	case "identitiesNull":
		m["tdxModuleIdentities"] = nil
	case "identityLevelsNull":
		if ids, ok := m["tdxModuleIdentities"].([]any); ok {
			for _, id := range ids {
				id.(map[string]any)["tcbLevels"] = nil
			}
		} else {
			m["tcbLevels"] = []any{}
		}
	case "maskShort":
		if tm, ok := m["tdxModule"].(map[string]any); ok {
			tm["attributesMask"] = "ffffffffffffff"
		} else {
			m["miscselectMask"] = "ffffff"
			m["attributesMask"] = "ff"
		}
	case "maskLong":
		if tm, ok := m["tdxModule"].(map[string]any); ok {
			tm["attributesMask"] = "ffffffffffffffffff"
			tm["attributes"] = "000000000000000000"
		} else {
			m["miscselect"] = "0000000000"
			m["attributesMask"] = strings.Repeat("ff", 17)
		}
	default:
		panic("unknown JSON shape " + shape)
	}
	return remarshal()
}

func headerShape(shape, name string, signerDER, rootDER []byte, rng *rand.Rand) map[string][]string {
	good := gen.IssuerChainHeader(signerDER, rootDER)
	h := map[string][]string{"Content-Type": {"application/json"}}
	switch shape {
	case "ok":
		h[name] = []string{good}
	case "nilMap":
		return nil
	case "missing":
	case "emptyList":
		h[name] = []string{}
	case "emptyString":
		h[name] = []string{""}
	case "badEscape":
		h[name] = []string{"%zz" + good}
	case "notPem":
		h[name] = []string{"hello%20world"}
	case "onePem":
		h[name] = []string{gen.IssuerChainHeader(signerDER)}
	case "rootOddDp": // the chain's root certificate names CRL distribution points that are no well-formed URIs
		k := gen.NewKey()
		_, der := gen.Issue(gen.CertSpec{CN: gen.CNRoot, Serial: big.NewInt(77), NotBefore: time.Now().Add(-time.Hour), NotAfter: time.Now().Add(time.Hour), IsCA: true,
			CRLDP: []string{"https://crl%zz.example/a", "http://[::1", "://x", "ht\x7ftp://x/ y"}, Pub: &k.PublicKey, SignKey: k})
		h[name] = []string{gen.IssuerChainHeader(signerDER, der)}
	case "pemOtherType":
		h[name] = []string{url.QueryEscape(string(pem.EncodeToMemory(&pem.Block{Type: "PUBLIC KEY", Bytes: signerDER})) + string(gen.PEMCert(rootDER)))}
	case "truncatedDer":
		h[name] = []string{gen.IssuerChainHeader(signerDER[:len(signerDER)/2], rootDER[:20])}
	case "threeCerts":
		h[name] = []string{gen.IssuerChainHeader(signerDER, rootDER, rootDER)}
	case "hugeJunk":
		h[name] = []string{strings.Repeat("A", 1<<20)}
	default:
		panic("unknown header shape " + shape)
	}
	return h
}

func crlShape(shape string, good []byte, certDER []byte, key *ecdsa.PrivateKey) []byte {
	switch shape {
	case "ok":
		return good
	case "empty":
		return []byte{}
	case "garbage":
		return []byte("not a crl at all")
	case "truncated":
		return good[:len(good)/2]
	case "pemInsteadOfDer":
		return pem.EncodeToMemory(&pem.Block{Type: "X509 CRL", Bytes: good})
	case "certInsteadOfCrl":
		return certDER
	case "hugeJunk":
		return []byte(strings.Repeat("\x30\x82", 1<<19))
	case "noNumber": // correctly signed by its issuer, only without the cRLNumber extension
		return gen.StripCrlNumber(good, key)
	}
	panic("unknown CRL shape " + shape)
}

// RunPcsRespCase serves deviating endpoint responses to verify.TdxQuote.
func RunPcsRespCase(cs map[string]any, id int, seed int64) Result {
	rng := rand.New(rand.NewSource(seed*28657 + int64(id)))
	c := gen.Build(gen.World{"modBranch": "modOk"}, gen.Params{Seed: rng.Int63()})
	g := c.Getter
	for _, k := range []string{"d1", "d2"} {
		d := cs[k].(map[string]any)
		ep, part, shape := d["ep"].(string), d["part"].(string), d["shape"].(string)
		if shape == "ok" {
			continue
		}
		var u string
		switch ep {
		case "tcb":
			u = c.TcbURL
		case "qe":
			u = c.QeURL
		case "pckcrl":
			u = c.PckCrlURL
		case "rootcrl":
			u = c.RootCrlURLs[0]
		}
		r := g.Responses[u][0]
		if part == "header" {
			name := map[string]string{"tcb": gen.HdrTcbInfo, "qe": gen.HdrQeID, "pckcrl": gen.HdrPckCrl}[ep]
			signer := c.TcbSigner
			if ep == "qe" {
				signer = c.QeSigner
			}
			r.Header = headerShape(shape, name, signer.DER, c.HdrRootDER, rng)
		} else {
			switch ep {
			case "tcb":
				r.Body = jsonShape(shape, "tcbInfo", c.TcbSpec.Member(), c.TcbSigner, c.TcbBody, rng)
			case "qe":
				r.Body = jsonShape(shape, "enclaveIdentity", c.QeSpec.Member(), c.QeSigner, c.QeBody, rng)
			case "pckcrl":
				r.Body = crlShape(shape, c.PckCrlDER, c.Leaf.DER, c.A.Inter.Key)
			case "rootcrl":
				r.Body = crlShape(shape, c.RootCrlDER, c.Leaf.DER, c.A.Root.Key)
			}
		}
		g.Set(u, r)
	}
	m := MsgFromQuote(c.Q)
	var crashed, notes []string
	verdicts := []string{}
	for _, o := range []map[string]any{{"gc": true, "cr": false}, {"gc": true, "cr": true}} {
		g.Reset()
		opts := VerifyOpts(c, o)
		out := Guard(120*time.Second, func() error { return verify.TdxQuote(m, opts) })
		verdicts = append(verdicts, out.Verdict())
		if out.Panic != "" || out.Timeout {
			crashed = append(crashed, "verify.TdxQuote: "+out.ErrText())
		}
		o2 := Guard(120*time.Second, func() error { _, _, err := verify.SupportedTcbLevelsFromCollateral(m, opts); return err })
		if o2.Panic != "" || o2.Timeout {
			notes = append(notes, "verify.SupportedTcbLevelsFromCollateral")
		}
	}
	if crashed == nil {
		crashed = []string{}
	}
	ret := Event{"ev": "Return", "crashed": crashed, "result": strings.Join(verdicts, ",")}
	if notes != nil {
		ret["notes"] = notes
	}
	return Result{ID: id, Events: []Event{{"ev": "Call", "case": id, "input": cs}, ret}}
}

func init() {
	Drivers["pcsresp"] = func(e Env) (*Summary, error) {
		cases, err := readRawCases(e.Cases)
		if err != nil {
			return nil, err
		}
		idx := make([]Case, len(cases))
		for i := range cases {
			idx[i] = Case{ID: i}
		}
		rs := RunParallel(idx, e.Workers, func(c Case) Result { return RunPcsRespCase(cases[c.ID], caseID(cases[c.ID], c.ID), e.Seed) })
		n, err := WriteTrace(e.Out, rs)
		if err != nil {
			return nil, err
		}
		s := summarise("pcsresp", rs, n)
		seen := map[string]bool{}
		for _, r := range rs {
			for _, ev := range r.Events {
				if ns, ok := ev["notes"].([]string); ok {
					for _, nn := range ns {
						if !seen[nn] {
							seen[nn] = true
							s.Notes = append(s.Notes, "entry point outside the property's list crashed on a deviating endpoint response: "+nn)
						}
					}
				}
			}
		}
		return s, nil
	}
}
