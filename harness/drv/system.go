package drv

import (
	"math/rand"
	"time"

	"github.com/google/go-tdx-guest/abi"
	"github.com/google/go-tdx-guest/client"
	pb "github.com/google/go-tdx-guest/proto/tdx"
	"github.com/google/go-tdx-guest/rtmr"
	"github.com/google/go-tdx-guest/validate"
	"github.com/google/go-tdx-guest/verify"

	"verifharness/gen"
)

// RunSystemCase runs one end-to-end case: device -> client -> transit -> parse -> verify -> validate -> [event log].
func RunSystemCase(cs map[string]any, id int, seed int64) Result {
	rng := rand.New(rand.NewSource(seed*67867967 + int64(id)))
	str := func(k string) string { return cs[k].(string) }
	s := loadCcel()
	sq, _ := gen.Decode(s.quote)
	body := append([]byte{}, sq.Body...)
	if str("logfit") == "rtmrDiffers" {
		reg := gen.FieldOf("body", []string{"rtmr0", "rtmr1", "rtmr2"}[rng.Intn(3)], body)
		reg[rng.Intn(48)] ^= 1 << uint(rng.Intn(8))
	}
	w := gen.World{"modBranch": "modOk", "extra": "some"}
	if str("trust") == "otherRoot" {
		w["pool"] = "B"
	}
	switch str("collat") {
	case "tcbOutOfDate":
		w["tcbContent"] = "outOfDate"
	case "leafRevoked":
		w["pckCrlRev"] = "leaf"
	}
	c := gen.Build(w, gen.Params{Seed: rng.Int63(), Header: sq.Header, Body: body})
	ret := func(d string, err string) Result {
		return Result{ID: id, Events: []Event{{"ev": "Call", "case": id, "input": cs}, {"ev": "Return", "delivered": d, "err": err, "result": d}}}
	}
	// ---- guest
	dev := map[string]any{"rr": "r0", "qr": "r0", "st": "s0", "ol": "exact", "buf": "quote", "len": "kept"}
	switch str("dev") {
	case "reportFails":
		dev["rr"] = "err"
	case "quoteFails":
		dev["qr"] = "r8"
	case "badStatus":
		dev["st"] = "error"
	case "zeroLength":
		dev["ol"] = "zero"
	}
	var rd [64]byte
	copy(rd[:], s.nonce)
	d := &scriptedDevice{caseDev: dev, rd: rd, quote: c.Raw}
	rng.Read(d.report[:])
	var raw []byte
	out := Guard(90*time.Second, func() error {
		var err error
		raw, err = client.GetRawQuote(d, rd)
		return err
	})
	if out.Verdict() != "accept" {
		if out.Panic != "" || out.Timeout {
			return ret("panic", out.ErrText())
		}
		return ret("guestError", out.ErrText())
	}
	// ---- transit
	wire := append([]byte{}, raw...)
	extraStart := len(wire) - len(c.Q.Extra)
	switch str("transit") {
	case "intact":
	case "flipSigned":
		regions := [][2]int{{0, 632}, {gen.OffSig, gen.OffCertType}, {gen.OffQEReport, gen.OffAuthSize}, {gen.OffAuthData, gen.OffAuthData + len(c.Q.Auth)}}
		r := regions[rng.Intn(len(regions))]
		p := r[0] + rng.Intn(r[1]-r[0])
		wire[p] ^= 1 << uint(rng.Intn(8))
	case "flipUnsignedSize":
		offs := [][2]int{{gen.OffSDSize, 4}, {gen.OffCertType, 2}, {gen.OffCertSize, 4}, {gen.OffAuthSize, 2}, {gen.OffAuthData + len(c.Q.Auth), 2}, {gen.OffAuthData + len(c.Q.Auth) + 2, 4}}
		o := offs[rng.Intn(len(offs))]
		wire[o[0]+rng.Intn(o[1])] ^= 1 << uint(rng.Intn(8))
	case "flipExtra":
		wire[extraStart+rng.Intn(len(c.Q.Extra))] ^= 1 << uint(rng.Intn(8))
	case "truncated":
		wire = wire[:extraStart-1-rng.Intn(200)]
	case "appended":
		wire = append(wire, gen.RandBytes(rng, 1+rng.Intn(30))...)
	}
	// ---- relying party
	var q any
	out = Guard(90*time.Second, func() error {
		var err error
		q, err = abi.QuoteToProto(wire)
		return err
	})
	if out.Verdict() != "accept" {
		if out.Panic != "" || out.Timeout {
			return ret("panic", out.ErrText())
		}
		return ret("rejected", "parse: "+out.ErrText())
	}
	msg := q.(*pb.QuoteV4)
	lvl := int(cs["lvl"].(float64))
	o := []map[string]any{{"gc": false, "cr": false}, {"gc": true, "cr": false}, {"gc": true, "cr": true}}[lvl]
	vopts := VerifyOpts(c, o)
	ropts := rtmr.TdxDefaultOpts(s.nonce)
	if str("pol") == "nonceDiffers" {
		ropts.Validation.TdQuoteBodyOptions.ReportData[rng.Intn(len(s.nonce))] ^= 0x80
	}
	if str("consumer") == "eventLog" {
		ropts.Verification = vopts
		var st any
		out = Guard(120*time.Second, func() error {
			v, err := rtmr.ParseCcelWithTdQuote(s.log, s.table, msg, &ropts)
			st = v
			return err
		})
		if out.Panic != "" || out.Timeout {
			return ret("panic", out.ErrText())
		}
		if out.Err != nil {
			return ret("rejected", out.ErrText())
		}
		_ = st
		return ret("logState", "")
	}
	out = Guard(120*time.Second, func() error { return verify.TdxQuote(msg, vopts) })
	if out.Verdict() != "accept" {
		if out.Panic != "" || out.Timeout {
			return ret("panic", out.ErrText())
		}
		return ret("rejected", "verify: "+out.ErrText())
	}
	out = Guard(120*time.Second, func() error { return validate.TdxQuote(msg, ropts.Validation) })
	if out.Verdict() != "accept" {
		if out.Panic != "" || out.Timeout {
			return ret("panic", out.ErrText())
		}
		return ret("rejected", "validate: "+out.ErrText())
	}
	return ret("quote", "")
}

func init() {
	Drivers["system"] = func(e Env) (*Summary, error) {
		cases, err := readRawCases(e.Cases)
		if err != nil {
			return nil, err
		}
		idx := make([]Case, len(cases))
		for i := range cases {
			idx[i] = Case{ID: i}
		}
		rs := RunParallel(idx, e.Workers, func(c Case) Result { return RunSystemCase(cases[c.ID], caseID(cases[c.ID], c.ID), e.Seed) })
		n, err := WriteTrace(e.Out, rs)
		if err != nil {
			return nil, err
		}
		return summarise("system", rs, n), nil
	}
}
