package drv

import (
	"bytes"
	"crypto/rand"
	"crypto/tls"
	"crypto/x509"
	"crypto/x509/pkix"
	"fmt"
	"io"
	"math/big"
	mrand "math/rand"
	"net"
	"net/http"
	"os"
	"path/filepath"
	"reflect"
	"strings"
	"sync"
	"time"

	"github.com/google/go-tdx-guest/verify/trust"

	"verifharness/gen"
)

// The httpsget driver (spec/HttpsGet.tla): trust.SimpleHTTPSGetter.Get against TLS servers inside the harness, reached through an
// HTTP CONNECT proxy named by HTTPS_PROXY; the servers' CA is the only certificate in SSL_CERT_FILE. Both variables are set before
// the process makes its first request. Every case has a path of its own; the handler serves what the case says and counts requests.

type httpsCase struct {
	id                            int
	status                        int
	transport, redirect, body, hd string
	payload                       []byte
	extra                         map[string][]string
	mu                            sync.Mutex
	requests                      int
}

type httpsWorld struct {
	mu    sync.Mutex
	cases map[string]*httpsCase // by first path element
}

func (hw *httpsWorld) handler(w http.ResponseWriter, r *http.Request) {
	parts := strings.Split(strings.Trim(r.URL.Path, "/"), "/")
	hw.mu.Lock()
	c := hw.cases[parts[0]]
	hw.mu.Unlock()
	if c == nil {
		http.Error(w, "no such case", http.StatusTeapot)
		return
	}
	c.mu.Lock()
	c.requests++
	c.mu.Unlock()
	hop := 0
	if len(parts) > 1 {
		fmt.Sscanf(parts[1], "hop%d", &hop)
	}
	next := func() string { return fmt.Sprintf("https://%s/%s/hop%d", r.Host, parts[0], hop+1) }
	switch {
	case c.redirect == "noLocation":
		w.WriteHeader(http.StatusMovedPermanently)
		return
	case c.redirect == "loop", c.redirect == "once" && hop < 1, c.redirect == "twice" && hop < 2:
		w.Header().Set("Location", next())
		w.WriteHeader([]int{http.StatusMovedPermanently, http.StatusFound, http.StatusTemporaryRedirect}[hop%3])
		return
	}
	for k, vs := range c.extra {
		for _, v := range vs {
			w.Header().Add(k, v)
		}
	}
	switch c.transport {
	case "absurdLength":
		hj, ok := w.(http.Hijacker)
		if !ok {
			panic("no hijacker")
		}
		conn, buf, _ := hj.Hijack()
		fmt.Fprintf(buf, "HTTP/1.1 200 OK\r\nContent-Length: 9223372036854775807\r\nContent-Type: application/json\r\n\r\n")
		buf.Write(c.payload)
		buf.Flush()
		conn.Close()
		return
	case "shortBody", "resetInBody":
		hj, ok := w.(http.Hijacker)
		if !ok {
			panic("no hijacker")
		}
		conn, buf, _ := hj.Hijack()
		fmt.Fprintf(buf, "HTTP/1.1 200 OK\r\nContent-Length: %d\r\nContent-Type: application/octet-stream\r\n\r\n", len(c.payload)+100)
		buf.Write(c.payload)
		buf.Flush()
		if c.transport == "resetInBody" {
			if tc, ok := conn.(*tls.Conn); ok {
				if t, ok := tc.NetConn().(*net.TCPConn); ok {
					t.SetLinger(0) // RST instead of a TLS close_notify
				}
			}
		}
		conn.Close()
		return
	}
	w.WriteHeader(c.status)
	if c.status != http.StatusNoContent && c.status != http.StatusNotModified {
		w.Write(c.payload)
	}
}

func init() {
	Drivers["httpsget"] = func(e Env) (*Summary, error) {
		cases, err := readRawCases(e.Cases)
		if err != nil {
			return nil, err
		}
		// ---- web PKI: a CA the process trusts, a server certificate for the names used, one for another name, and an untrusted CA
		now := time.Now()
		mkCA := func(cn string) (*x509.Certificate, []byte, any) {
			k := gen.NewKey()
			t := &x509.Certificate{SerialNumber: big.NewInt(1), Subject: pkix.Name{CommonName: cn}, NotBefore: now.Add(-time.Hour), NotAfter: now.Add(48 * time.Hour),
				IsCA: true, BasicConstraintsValid: true, KeyUsage: x509.KeyUsageCertSign}
			der, err := x509.CreateCertificate(rand.Reader, t, t, &k.PublicKey, k)
			if err != nil {
				panic(err)
			}
			cert, _ := x509.ParseCertificate(der)
			return cert, der, k
		}
		mkSrv := func(ca *x509.Certificate, caKey any, names ...string) tls.Certificate {
			k := gen.NewKey()
			t := &x509.Certificate{SerialNumber: big.NewInt(2), Subject: pkix.Name{CommonName: names[0]}, NotBefore: now.Add(-time.Hour), NotAfter: now.Add(48 * time.Hour),
				DNSNames: names, KeyUsage: x509.KeyUsageDigitalSignature, ExtKeyUsage: []x509.ExtKeyUsage{x509.ExtKeyUsageServerAuth}}
			der, err := x509.CreateCertificate(rand.Reader, t, ca, &k.PublicKey, caKey)
			if err != nil {
				panic(err)
			}
			return tls.Certificate{Certificate: [][]byte{der}, PrivateKey: k}
		}
		goodCA, goodDER, goodKey := mkCA("verif web CA")
		badCA, _, badKey := mkCA("verif other web CA")
		hw := &httpsWorld{cases: map[string]*httpsCase{}}
		listen := func(cert tls.Certificate) net.Listener {
			ln, err := tls.Listen("tcp", "127.0.0.1:0", &tls.Config{Certificates: []tls.Certificate{cert}})
			if err != nil {
				panic(err)
			}
			srv := &http.Server{Handler: http.HandlerFunc(hw.handler), ErrorLog: nil}
			go srv.Serve(ln)
			return ln
		}
		// host name -> listener: the proxy routes CONNECT by host name
		routes := map[string]net.Listener{
			"good.pcs.example:443":      listen(mkSrv(goodCA, goodKey, "good.pcs.example")),
			"untrusted.pcs.example:443": listen(mkSrv(badCA, badKey, "untrusted.pcs.example")),
			"wronghost.pcs.example:443": listen(mkSrv(goodCA, goodKey, "another-name.example")),
		}
		proxy, err := net.Listen("tcp", "127.0.0.1:0")
		if err != nil {
			return nil, err
		}
		go http.Serve(proxy, http.HandlerFunc(func(w http.ResponseWriter, r *http.Request) {
			ln := routes[r.Host]
			if r.Method != http.MethodConnect || ln == nil { // "refused.pcs.example": nobody answers for it
				http.Error(w, "no route", http.StatusBadGateway)
				return
			}
			up, err := net.Dial("tcp", ln.Addr().String())
			if err != nil {
				http.Error(w, err.Error(), http.StatusBadGateway)
				return
			}
			conn, _, err := w.(http.Hijacker).Hijack()
			if err != nil {
				up.Close()
				return
			}
			conn.Write([]byte("HTTP/1.1 200 Connection established\r\n\r\n"))
			go func() { io.Copy(up, conn); up.Close() }()
			go func() { io.Copy(conn, up); conn.Close() }()
		}))
		dir, err := os.MkdirTemp("", "verif-https-")
		if err != nil {
			return nil, err
		}
		defer os.RemoveAll(dir)
		caFile := filepath.Join(dir, "ca.pem")
		os.WriteFile(caFile, gen.PEMCert(goodDER), 0o600)
		os.Setenv("HTTPS_PROXY", "http://"+proxy.Addr().String())
		os.Setenv("https_proxy", "http://"+proxy.Addr().String())
		os.Setenv("NO_PROXY", "")
		os.Setenv("no_proxy", "")
		os.Setenv("SSL_CERT_FILE", caFile)
		os.Setenv("SSL_CERT_DIR", filepath.Join(dir, "none"))

		g := &trust.SimpleHTTPSGetter{}
		run := func(cc Case) Result {
			cs := cases[cc.ID]
			id := caseID(cs, cc.ID)
			rng := mrand.New(mrand.NewSource(e.Seed*48271 + int64(id)))
			c := &httpsCase{id: id, status: int(cs["status"].(float64)), transport: cs["transport"].(string), redirect: cs["redirect"].(string),
				body: cs["body"].(string), hd: cs["hdr"].(string)}
			switch c.body {
			case "empty":
				c.payload = []byte{}
			case "small":
				c.payload = []byte(fmt.Sprintf(`{"tcbInfo":{"id":"TDX","n":%d}}`, rng.Int63()))
			case "large":
				c.payload = gen.RandBytes(rng, 1<<20+rng.Intn(1000))
			case "binary":
				c.payload = append([]byte{0x00, 0xff, 0x0d, 0x0a, 0x0d, 0x0a, 0x1a}, gen.RandBytes(rng, 300)...)
			}
			switch c.hd {
			case "single":
				c.extra = map[string][]string{"Tcb-Info-Issuer-Chain": {fmt.Sprintf("chain-%d", rng.Int63())}}
			case "multi":
				c.extra = map[string][]string{"Sgx-Pck-Crl-Issuer-Chain": {"a%20b", "c"}, "Request-Id": {fmt.Sprintf("%x", rng.Int63())}}
			}
			key := fmt.Sprintf("case%d", id)
			hw.mu.Lock()
			hw.cases[key] = c
			hw.mu.Unlock()
			host := map[string]string{"untrustedCert": "untrusted.pcs.example", "wrongHost": "wronghost.pcs.example", "connectRefused": "refused.pcs.example"}[c.transport]
			if host == "" {
				host = "good.pcs.example"
			}
			var hdr map[string][]string
			var body []byte
			out := Guard(60*time.Second, func() error {
				var err error
				hdr, body, err = g.Get("https://" + host + "/" + key)
				return err
			})
			result := "error"
			switch {
			case out.Panic != "":
				result = "panic"
			case out.Timeout:
				result = "timeout"
			case out.Err == nil:
				result = "data"
			}
			headersOk := true
			for k, vs := range c.extra {
				if !reflect.DeepEqual(hdr[k], vs) {
					headersOk = false
				}
			}
			c.mu.Lock()
			reqs := c.requests
			c.mu.Unlock()
			return Result{ID: id, Events: []Event{{"ev": "Call", "case": id, "input": cs},
				{"ev": "Return", "result": result, "bodyOk": bytes.Equal(body, c.payload) && body != nil, "headersOk": headersOk, "noData": hdr == nil && body == nil,
					"requests": reqs, "err": out.ErrText()}}}
		}
		idx := make([]Case, len(cases))
		for i := range cases {
			idx[i] = Case{ID: i}
		}
		rs := RunParallel(idx, e.Workers, run)
		// the default getter's shape
		d := trust.DefaultHTTPSGetter()
		ev := Event{"ev": "Default", "timeoutMs": -1, "maxRetryDelayMs": -1, "wrapsSimple": false}
		if r, ok := d.(*trust.RetryHTTPSGetter); ok {
			_, simple := r.Getter.(*trust.SimpleHTTPSGetter)
			ev = Event{"ev": "Default", "timeoutMs": int(r.Timeout / time.Millisecond), "maxRetryDelayMs": int(r.MaxRetryDelay / time.Millisecond), "wrapsSimple": simple}
		}
		rs = append(rs, Result{ID: 1 << 30, Events: []Event{ev}})
		n, err := WriteTrace(e.Out, rs)
		if err != nil {
			return nil, err
		}
		return summarise("httpsget", rs, n), nil
	}
}
