package drv

import (
	"bytes"
	"crypto/rand"
	"crypto/tls"
	"crypto/x509"
	"crypto/x509/pkix"
	"encoding/binary"
	"encoding/hex"
	"errors"
	"fmt"
	"io"
	"math/big"
	mrand "math/rand"
	"net"
	"net/http"
	"os"
	"os/exec"
	"path/filepath"
	"strings"
	"sync"
	"time"

	"google.golang.org/protobuf/encoding/prototext"
	"google.golang.org/protobuf/proto"

	ccpb "github.com/google/go-tdx-guest/proto/checkconfig"
	"github.com/google/go-tdx-guest/verify"
	"github.com/google/go-tdx-guest/verify/trust"

	"verifharness/gen"
)

// fakePCS is an HTTP CONNECT proxy in front of a TLS server that answers for Intel's hosts from a scripted getter.
type fakePCS struct {
	proxy, tlsLn net.Listener
	caPEM        []byte
	getter       *gen.Getter
	serverError  bool
	failKind     string // "tcb" | "qe" | "pckcrl" | "rootcrl": only that download gets a 503
	conc         *gen.Concrete
}

var (
	webCAOnce           sync.Once
	webCAKey, webSrvKey = gen.NewKey(), gen.NewKey()
	webCAPEM            []byte
	webSrvCert          tls.Certificate
)

func webPKI() {
	webCAOnce.Do(func() {
		now := time.Now()
		ca := &x509.Certificate{SerialNumber: big.NewInt(1), Subject: pkix.Name{CommonName: "verif web CA"}, NotBefore: now.Add(-time.Hour), NotAfter: now.Add(48 * time.Hour),
			IsCA: true, BasicConstraintsValid: true, KeyUsage: x509.KeyUsageCertSign}
		caDER, err := x509.CreateCertificate(rand.Reader, ca, ca, &webCAKey.PublicKey, webCAKey)
		if err != nil {
			panic(err)
		}
		caCert, _ := x509.ParseCertificate(caDER)
		srv := &x509.Certificate{SerialNumber: big.NewInt(2), Subject: pkix.Name{CommonName: "api.trustedservices.intel.com"}, NotBefore: now.Add(-time.Hour), NotAfter: now.Add(48 * time.Hour),
			DNSNames: []string{"api.trustedservices.intel.com", "certificates.trustedservices.intel.com", "dp1.example"}, KeyUsage: x509.KeyUsageDigitalSignature, ExtKeyUsage: []x509.ExtKeyUsage{x509.ExtKeyUsageServerAuth}}
		srvDER, err := x509.CreateCertificate(rand.Reader, srv, caCert, &webSrvKey.PublicKey, webCAKey)
		if err != nil {
			panic(err)
		}
		webCAPEM = gen.PEMCert(caDER)
		webSrvCert = tls.Certificate{Certificate: [][]byte{srvDER}, PrivateKey: webSrvKey}
	})
}

func startFakePCS(g *gen.Getter, serverError bool) *fakePCS {
	webPKI()
	f := &fakePCS{getter: g, serverError: serverError, caPEM: webCAPEM}
	var err error
	f.tlsLn, err = tls.Listen("tcp", "127.0.0.1:0", &tls.Config{Certificates: []tls.Certificate{webSrvCert}})
	if err != nil {
		panic(err)
	}
	go http.Serve(f.tlsLn, http.HandlerFunc(func(w http.ResponseWriter, r *http.Request) {
		if f.serverError {
			http.Error(w, "service unavailable", http.StatusServiceUnavailable)
			return
		}
		u := "https://" + r.Host + r.URL.RequestURI()
		if f.failKind != "" && f.conc != nil {
			if k, _ := ClassifyFetch(f.conc, u); k == f.failKind {
				http.Error(w, "service unavailable", http.StatusServiceUnavailable)
				return
			}
		}
		h, body, err := f.getter.Get(u)
		if err != nil {
			http.Error(w, "not found", http.StatusNotFound)
			return
		}
		for k, vs := range h {
			for _, v := range vs {
				w.Header().Add(k, v)
			}
		}
		w.Write(body)
	}))
	f.proxy, err = net.Listen("tcp", "127.0.0.1:0")
	if err != nil {
		panic(err)
	}
	go http.Serve(f.proxy, http.HandlerFunc(func(w http.ResponseWriter, r *http.Request) {
		if r.Method != http.MethodConnect {
			http.Error(w, "CONNECT only", http.StatusMethodNotAllowed)
			return
		}
		up, err := net.Dial("tcp", f.tlsLn.Addr().String())
		if err != nil {
			http.Error(w, err.Error(), http.StatusBadGateway)
			return
		}
		hj, ok := w.(http.Hijacker)
		if !ok {
			up.Close()
			return
		}
		conn, _, err := hj.Hijack()
		if err != nil {
			up.Close()
			return
		}
		conn.Write([]byte("HTTP/1.1 200 Connection established\r\n\r\n"))
		go func() { io.Copy(up, conn); up.Close() }()
		go func() { io.Copy(conn, up); conn.Close() }()
	}))
	return f
}

func (f *fakePCS) stop() {
	f.proxy.Close()
	f.tlsLn.Close()
}

type fieldVals struct {
	match, mismatch []byte
	size            int
}

// RunCheckToolCase runs the real check binary for one case.
func RunCheckToolCase(cs map[string]any, id int, seed int64, tool, tmp string) Result {
	rng := mrand.New(mrand.NewSource(seed*49979687 + int64(id)))
	str := func(k string) string { return cs[k].(string) }
	dir := filepath.Join(tmp, fmt.Sprintf("case%d", id))
	if err := os.MkdirAll(dir, 0o755); err != nil {
		panic(err)
	}
	defer os.RemoveAll(dir)

	// a quote that satisfies the fixed XFAM / TD_ATTRIBUTES masks, TEE_TCB_SVN[1] = 0
	body := gen.RandBytes(rng, gen.BodySize)
	binary.LittleEndian.PutUint64(gen.FieldOf("body", "xfam", body), 0x3|uint64(rng.Intn(2))<<2|uint64(rng.Intn(2))<<5)
	binary.LittleEndian.PutUint64(gen.FieldOf("body", "td_attributes", body), uint64(rng.Intn(2))<<28)
	svn := gen.FieldOf("body", "tee_tcb_svn", body)
	for i := range svn {
		svn[i] = byte(20 + rng.Intn(200))
	}
	svn[1] = 0
	hdr := gen.NewHeader(rng)
	copy(gen.FieldOf("header", "qe_svn", hdr), []byte{byte(1 + rng.Intn(200)), byte(rng.Intn(100))})
	copy(gen.FieldOf("header", "pce_svn", hdr), []byte{byte(1 + rng.Intn(200)), byte(rng.Intn(100))})
	w := gen.World{}
	if str("quote") == "forged" {
		w["qsig"] = "otherKey"
	}
	if str("net") == "tampered" {
		w["tcbAlter"] = "sigBit"
	}
	c := gen.Build(w, gen.Params{Seed: rng.Int63(), WallNow: true, Header: hdr, Body: body})
	msg := MsgFromQuote(c.Q)

	// ---- quote file
	var qbytes []byte
	switch str("quote") {
	case "valid", "forged":
		switch str("inform") {
		case "proto":
			qbytes, _ = proto.Marshal(msg)
		case "textproto":
			qbytes, _ = prototext.Marshal(msg)
		default:
			qbytes = c.Raw
		}
	case "unparsable":
		qbytes = []byte("\x04\x00this is not a quote at all {{{{")
	case "empty":
		qbytes = []byte{}
	}
	qpath := filepath.Join(dir, "quote")
	os.WriteFile(qpath, qbytes, 0o600)
	args := []string{"-in", qpath, "-inform", str("inform"), "-timeout=400ms", "-max_retry_delay=60ms"}
	switch cs["retry"] { // the tool must end on its own and keep its exit code whatever these are
	case "zeroDelay":
		args[5] = "-max_retry_delay=0"
	case "negativeDelay":
		args[5] = "-max_retry_delay=-1s"
	case "zeroTimeout":
		args[4] = "-timeout=0"
	case "negativeTimeout":
		args[4] = "-timeout=-1s"
	}
	shortConfig := ""
	present, _ := cs["present"].(string)
	switch present {
	case "quiet":
		args = append(args, "-quiet")
	case "verbose":
		args = append(args, "-verbosity=2")
	case "stdin": // the quote arrives on standard input
		args[1] = "-"
	}

	// ---- policy field values
	b := msg.TdQuoteBody
	flip := func(x []byte) []byte { y := cp(x); y[rng.Intn(len(y))] ^= 0x20; return y }
	fv := map[string]fieldVals{
		"qe_vendor_id": {msg.Header.QeVendorId, flip(msg.Header.QeVendorId), 16}, "mr_seam": {b.MrSeam, flip(b.MrSeam), 48},
		"td_attributes": {b.TdAttributes, flip(b.TdAttributes), 8}, "xfam": {b.Xfam, flip(b.Xfam), 8}, "mr_td": {b.MrTd, flip(b.MrTd), 48},
		"mr_config_id": {b.MrConfigId, flip(b.MrConfigId), 48}, "mr_owner": {b.MrOwner, flip(b.MrOwner), 48}, "mr_owner_config": {b.MrOwnerConfig, flip(b.MrOwnerConfig), 48},
		"report_data": {b.ReportData, flip(b.ReportData), 64},
	}
	minTeeAbove := cp(b.TeeTcbSvn)
	minTeeAbove[2+rng.Intn(14)]++
	fv["minimum_tee_tcb_svn"] = fieldVals{b.TeeTcbSvn, minTeeAbove, 16}
	qeSvn := uint32(binary.LittleEndian.Uint16(msg.Header.QeSvn))
	pceSvn := uint32(binary.LittleEndian.Uint16(msg.Header.PceSvn))
	field := str("field")
	cfg := &ccpb.Config{RootOfTrust: &ccpb.RootOfTrust{}, Policy: &ccpb.Policy{HeaderPolicy: &ccpb.HeaderPolicy{}, TdQuoteBodyPolicy: &ccpb.TDQuoteBodyPolicy{}}}
	setCfgBytes := func(v []byte) {
		hp, bp := cfg.Policy.HeaderPolicy, cfg.Policy.TdQuoteBodyPolicy
		switch field {
		case "qe_vendor_id":
			hp.QeVendorId = v
		case "mr_seam":
			bp.MrSeam = v
		case "td_attributes":
			bp.TdAttributes = v
		case "xfam":
			bp.Xfam = v
		case "mr_td":
			bp.MrTd = v
		case "mr_config_id":
			bp.MrConfigId = v
		case "mr_owner":
			bp.MrOwner = v
		case "mr_owner_config":
			bp.MrOwnerConfig = v
		case "report_data":
			bp.ReportData = v
		case "minimum_tee_tcb_svn":
			bp.MinimumTeeTcbSvn = v
		}
	}
	rt := func(diff bool, short bool) [][]byte {
		r := [][]byte{cp(b.Rtmrs[0]), cp(b.Rtmrs[1]), cp(b.Rtmrs[2]), cp(b.Rtmrs[3])}
		if diff {
			r[rng.Intn(4)][rng.Intn(48)] ^= 1
		}
		if short {
			r[1] = r[1][:47]
		}
		return r
	}
	switch str("cfg") {
	case "absent":
	case "match":
		switch field {
		case "minimum_qe_svn":
			cfg.Policy.HeaderPolicy.MinimumQeSvn = qeSvn
		case "minimum_pce_svn":
			cfg.Policy.HeaderPolicy.MinimumPceSvn = pceSvn
		case "rtmrs":
			cfg.Policy.TdQuoteBodyPolicy.Rtmrs = rt(false, false)
		default:
			setCfgBytes(fv[field].match)
		}
	case "mismatch":
		switch field {
		case "minimum_qe_svn":
			cfg.Policy.HeaderPolicy.MinimumQeSvn = qeSvn + 1
		case "minimum_pce_svn":
			cfg.Policy.HeaderPolicy.MinimumPceSvn = pceSvn + 1
		case "rtmrs":
			cfg.Policy.TdQuoteBodyPolicy.Rtmrs = rt(true, false)
		default:
			setCfgBytes(fv[field].mismatch)
		}
	case "malformed":
		switch field {
		case "minimum_qe_svn":
			cfg.Policy.HeaderPolicy.MinimumQeSvn = 65536 + qeSvn
		case "minimum_pce_svn":
			cfg.Policy.HeaderPolicy.MinimumPceSvn = 1 << 31
		case "rtmrs":
			cfg.Policy.TdQuoteBodyPolicy.Rtmrs = rt(false, true)
		default:
			m := fv[field].match
			setCfgBytes(m[:len(m)-1])
		}
	}
	switch cs["cfgAny"] { // the config's allow-list for MR_TD
	case "match":
		cfg.Policy.TdQuoteBodyPolicy.AnyMrTd = [][]byte{gen.RandBytes(rng, 48), cp(b.MrTd)}
	case "mismatch":
		cfg.Policy.TdQuoteBodyPolicy.AnyMrTd = [][]byte{gen.RandBytes(rng, 48), gen.RandBytes(rng, 48)}
	}
	hexs := func(v []byte) string { return hex.EncodeToString(v) }
	rtHex := func(r [][]byte) string {
		var p []string
		for _, x := range r {
			p = append(p, hexs(x))
		}
		return strings.Join(p, ",")
	}
	// a number may be written in any of the spellings the tool documents by its behaviour: decimal (leading zeros do not make it octal),
	// 0x / 0X hex, 0o octal, 0b binary; the case id picks one
	spell := func(v uint32) string {
		switch id % 6 {
		case 0:
			return fmt.Sprintf("%d", v)
		case 1:
			return fmt.Sprintf("0%d", v)
		case 2:
			return fmt.Sprintf("0x%x", v)
		case 3:
			return fmt.Sprintf("0X%X", v)
		case 4:
			return fmt.Sprintf("0o%o", v)
		}
		return fmt.Sprintf("0b%b", v)
	}
	notNumbers := []string{"twelve", "70000", "1_0", "0_0", "-1", "0x", "1e3", "0x1_0", " 7"}
	switch str("flag") {
	case "absent":
	case "match":
		switch field {
		case "minimum_qe_svn":
			args = append(args, "-minimum_qe_svn="+spell(qeSvn))
		case "minimum_pce_svn":
			args = append(args, "-minimum_pce_svn="+spell(pceSvn))
		case "rtmrs":
			args = append(args, "-rtmrs="+rtHex(rt(false, false)))
		default:
			args = append(args, "-"+field+"="+hexs(fv[field].match))
		}
	case "mismatch":
		switch field {
		case "minimum_qe_svn":
			args = append(args, "-minimum_qe_svn="+spell(qeSvn+1))
		case "minimum_pce_svn":
			args = append(args, "-minimum_pce_svn="+spell(pceSvn+1))
		case "rtmrs":
			args = append(args, "-rtmrs="+rtHex(rt(true, false)))
		default:
			args = append(args, "-"+field+"="+hexs(fv[field].mismatch))
		}
	case "malformed":
		switch field {
		case "minimum_qe_svn":
			args = append(args, "-minimum_qe_svn="+notNumbers[id%len(notNumbers)])
		case "minimum_pce_svn":
			args = append(args, "-minimum_pce_svn="+notNumbers[(id/2)%len(notNumbers)])
		case "rtmrs":
			args = append(args, "-rtmrs=zz,,,")
		default:
			if rng.Intn(2) == 0 {
				args = append(args, "-"+field+"=!!not-hex!!")
			} else {
				args = append(args, "-"+field+"="+hexs(append(cp(fv[field].match), 0x01))) // one byte too long
			}
		}
	}

	// ---- root of trust
	goodBundle := filepath.Join(dir, "roots-good.pem")
	os.WriteFile(goodBundle, append(gen.PEMCert(c.B.Inter.DER), gen.PEMCert(c.A.Root.DER)...), 0o600) // lists an unrelated certificate too
	wrongBundle := filepath.Join(dir, "roots-wrong.pem")
	os.WriteFile(wrongBundle, gen.PEMCert(c.B.Root.DER), 0o600)
	switch str("roots") {
	case "flagGood":
		args = append(args, "-trusted_roots="+goodBundle)
	case "configGood":
		cfg.RootOfTrust.CabundlePaths = []string{goodBundle}
	case "inlineGood":
		cfg.RootOfTrust.Cabundles = []string{string(gen.PEMCert(c.A.Root.DER))}
	case "flagWrong":
		args = append(args, "-trusted_roots="+wrongBundle)
	case "configWrong":
		cfg.RootOfTrust.CabundlePaths = []string{wrongBundle}
	case "flagMissingFile":
		args = append(args, "-trusted_roots="+filepath.Join(dir, "no-such-file.pem"))
	case "noneGiven":
	case "flagOverridesWrongConfig":
		cfg.RootOfTrust.CabundlePaths = []string{wrongBundle}
		args = append(args, "-trusted_roots="+goodBundle)
	case "flagWrongOverridesGoodConfig":
		cfg.RootOfTrust.CabundlePaths = []string{goodBundle}
		args = append(args, "-trusted_roots="+wrongBundle)
	}

	// ---- collateral / revocation and the network
	env := append(os.Environ(), "NO_PROXY=", "no_proxy=")
	var pcsrv *fakePCS
	if str("net") != "off" {
		args = append(args, "-get_collateral=true")
	}
	switch str("crl") {
	case "on":
		args = append(args, "-check_crl=true")
	case "onWithoutCollateral":
		args = append(args, "-check_crl=true", "-get_collateral=false")
	}
	if n := str("net"); n != "off" && n != "unreachable" {
		pcsrv = startFakePCS(c.Getter, n == "serverError")
		pcsrv.conc = c
		pcsrv.failKind = map[string]string{"tcbFails": "tcb", "qeFails": "qe", "pckCrlFails": "pckcrl", "rootCrlFails": "rootcrl"}[n]
		defer pcsrv.stop()
		ca := filepath.Join(dir, "webca.pem")
		os.WriteFile(ca, pcsrv.caPEM, 0o600)
		env = append(env, "HTTPS_PROXY=http://"+pcsrv.proxy.Addr().String(), "https_proxy=http://"+pcsrv.proxy.Addr().String(), "SSL_CERT_FILE="+ca, "SSL_CERT_DIR=/nonexistent")
	} else {
		env = append(env, "HTTPS_PROXY=", "https_proxy=")
	}

	// ---- config file
	switch str("shape") {
	case "none":
	case "emptyFile":
		cfg = nil
	case "policyEmpty":
		cfg.Policy = &ccpb.Policy{}
	case "noPolicy":
		cfg.Policy = nil
	case "noRootOfTrust":
		cfg.RootOfTrust = nil
	}
	if str("shape") != "none" {
		var data []byte
		name := "config.bin"
		if str("fmt") == "textproto" {
			name = "config.textproto"
			if cfg != nil {
				data, _ = prototext.Marshal(cfg) // a non-nil empty sub-message is written as `policy: {}`
			}
		} else if cfg != nil {
			data, _ = proto.Marshal(cfg)
		}
		p := filepath.Join(dir, name)
		if str("fmt") == "binary" { // a short relative path: the tool runs in the directory that holds the file
			name = []string{"c.pb", "c", "cfg.bin"}[id%3]
			p = filepath.Join(dir, name)
			shortConfig = name
		}
		os.WriteFile(p, data, 0o600)
		if shortConfig != "" {
			args = append(args, "-config="+shortConfig)
		} else {
			args = append(args, "-config="+p)
		}
	}

	// an unparsable binary quote comes in several kinds: bytes that are no quote at all, and genuine quotes cut inside the QE authentication
	// data (one and two bytes before its end, the enclosing size fields agreeing with the cut) or in the middle of the signed data
	variants := [][]byte{qbytes}
	if str("quote") == "unparsable" && str("inform") == "bin" {
		for _, short := range []int{1, 2} {
			v := append([]byte{}, c.Raw[:gen.OffAuthData+len(c.Q.Auth)-short]...)
			binary.LittleEndian.PutUint32(v[gen.OffSDSize:], uint32(len(v)-gen.OffSDSize-4))
			binary.LittleEndian.PutUint32(v[gen.OffCertSize:], uint32(len(v)-gen.OffCertSize-4))
			variants = append(variants, v)
		}
		variants = append(variants, append([]byte{}, c.Raw[:900]...))
	}
	var events []Event
	for vi, qb := range variants {
		started := time.Now()
		qbytes := qb
		os.WriteFile(qpath, qbytes, 0o600)
		cmd := exec.Command(tool, args...)
		cmd.Env = env
		if shortConfig != "" {
			cmd.Dir = dir
		}
		var stderr, stdout bytes.Buffer
		cmd.Stderr, cmd.Stdout = &stderr, &stdout
		if present == "stdin" {
			cmd.Stdin = bytes.NewReader(qbytes)
		}
		done := make(chan error, 1)
		if err := cmd.Start(); err != nil {
			panic(err)
		}
		go func() { done <- cmd.Wait() }()
		exit, hung := 0, false
		select {
		case err := <-done:
			var ee *exec.ExitError
			if errors.As(err, &ee) {
				exit = ee.ExitCode()
			} else if err != nil {
				panic(err)
			}
		case <-time.After(30 * time.Second):
			cmd.Process.Kill()
			hung = true
			exit = -2
		}
		se := stderr.String() + stdout.String()
		crash := hung || strings.Contains(se, "panic:") || strings.Contains(se, "goroutine 1 [running]")
		tail := se
		if len(tail) > 300 {
			tail = tail[len(tail)-300:]
		}

		events = append(events, Event{"ev": "Call", "case": id, "input": cs, "variant": vi, "args": strings.Join(args[2:], " ")},
			Event{"ev": "Return", "exit": exit, "crash": crash, "elapsedMs": int(time.Since(started) / time.Millisecond), "silent": len(se) == 0, "fatalLine": strings.Contains(stderr.String(), "FATAL:"), "stderrEmpty": stderr.Len() == 0, "stderr": tail, "result": fmt.Sprintf("exit%d", exit)})
	}
	return Result{ID: id, Events: events}
}

type failingGetter struct {
	inner   *gen.Getter
	failing string
	c       *gen.Concrete
}

func (f *failingGetter) Get(u string) (map[string][]string, []byte, error) {
	k, _ := ClassifyFetch(f.c, u)
	if k == f.failing {
		return nil, nil, errors.New("scripted: network is unreachable")
	}
	return f.inner.Get(u)
}

// errClassEvents: what errors.As finds in verify.TdxQuote's error when one fetch fails (library side of C19).
func errClassEvents(seed int64) []Event {
	var out []Event
	for i, failing := range []string{"tcb", "qe", "pckcrl", "rootcrl", "none-badsig", "none-revoked"} {
		w := gen.World{}
		switch failing {
		case "none-badsig":
			w["qsig"] = "otherKey"
		case "none-revoked":
			w["pckCrlRev"] = "leaf"
		}
		c := gen.Build(w, gen.Params{Seed: seed*77 + int64(i)})
		opts := VerifyOpts(c, map[string]any{"gc": true, "cr": true, "now": "set"})
		opts.Getter = &failingGetter{inner: c.Getter, failing: failing, c: c}
		err := verify.TdxQuote(MsgFromQuote(c.Q), opts)
		var rec *trust.AttestationRecreationErr
		var crlV verify.CRLUnavailableErr
		var crlP *verify.CRLUnavailableErr
		out = append(out, Event{"ev": "ErrClass", "failing": failing, "rejected": err != nil,
			"asRecreation": errors.As(err, &rec), "asCrl": errors.As(err, &crlV) || errors.As(err, &crlP), "err": fmt.Sprint(err)})
	}
	return out
}

func init() {
	Drivers["checktool"] = func(e Env) (*Summary, error) {
		cases, err := readRawCases(e.Cases)
		if err != nil {
			return nil, err
		}
		tool := e.Arg
		if tool == "" {
			return nil, errors.New("checktool driver needs -arg <path of the check binary>")
		}
		tmp, err := os.MkdirTemp("", "verif-checktool-")
		if err != nil {
			return nil, err
		}
		defer os.RemoveAll(tmp)
		idx := make([]Case, len(cases))
		for i := range cases {
			idx[i] = Case{ID: i}
		}
		rs := RunParallel(idx, e.Workers, func(c Case) Result {
			return RunCheckToolCase(cases[c.ID], caseID(cases[c.ID], c.ID), e.Seed, tool, tmp)
		})
		// library side, appended to the first case's block
		if len(rs) > 0 {
			rs[0].Events = append(rs[0].Events, errClassEvents(e.Seed)...)
		}
		n, err := WriteTrace(e.Out, rs)
		if err != nil {
			return nil, err
		}
		return summarise("checktool", rs, n), nil
	}
}
