package drv

import (
	"math/rand"
	"sync"
	"sync/atomic"
	"time"

	"github.com/google/go-tdx-guest/verify"

	"verifharness/gen"
)

// The isolation driver (spec/VerifyIsolation.tla): goroutines verify at the same time, half of them a genuine quote, half of them a copy
// altered after signing in the case's region; inputs and options are each goroutine's own. Every verdict must be the verdict of the
// goroutine's own input.
func RunIsolationCase(cs map[string]any, id int, seed int64, dur time.Duration) Result {
	rng := rand.New(rand.NewSource(seed*7927 + int64(id)))
	region := cs["tamper"].(string)
	ws := rng.Int63()
	good := gen.Build(gen.World{}, gen.Params{Seed: ws})
	var bad []*gen.Concrete
	for i := 0; i < 4; i++ { // four different altered bits of the region
		b := gen.Build(gen.World{"mut": region}, gen.Params{Seed: ws, MutBit: rng.Intn(1 << 20)})
		if b.Unrealizable != "" {
			return Result{ID: id, Skip: b.Unrealizable}
		}
		bad = append(bad, b)
	}
	const perKind = 8
	var tamperedAccepted, genuineRejected, genuineRuns, tamperedRuns, crashed int64
	stop := time.Now().Add(dur)
	var wg sync.WaitGroup
	worker := func(c *gen.Concrete, genuine bool, entry string) {
		defer wg.Done()
		for time.Now().Before(stop) && atomic.LoadInt64(&tamperedAccepted)+atomic.LoadInt64(&genuineRejected) == 0 { // the first wrong verdict settles the scenario
			o := map[string]any{"gc": false, "cr": false, "now": "set"}
			opts := VerifyOpts(c, o)
			var out Outcome
			if entry == "msg" {
				m := MsgFromQuote(c.Q)
				out = Guard(120*time.Second, func() error { return verify.TdxQuote(m, opts) })
			} else {
				raw := append([]byte{}, c.Raw...)
				out = Guard(120*time.Second, func() error { return verify.RawTdxQuote(raw, opts) })
			}
			switch {
			case out.Panic != "" || out.Timeout:
				atomic.AddInt64(&crashed, 1)
			case genuine:
				atomic.AddInt64(&genuineRuns, 1)
				if out.Err != nil {
					atomic.AddInt64(&genuineRejected, 1)
				}
			default:
				atomic.AddInt64(&tamperedRuns, 1)
				if out.Err == nil {
					atomic.AddInt64(&tamperedAccepted, 1)
				}
			}
		}
	}
	for i := 0; i < perKind; i++ {
		wg.Add(2)
		entry := []string{"msg", "raw"}[i%2]
		go worker(good, true, entry)
		go worker(bad[i%len(bad)], false, entry)
	}
	wg.Wait()
	result := "ok"
	if crashed > 0 {
		result = "panic"
	}
	return Result{ID: id, Events: []Event{{"ev": "Call", "case": id, "input": cs},
		{"ev": "Return", "result": result, "tamperedAccepted": int(tamperedAccepted), "genuineRejected": int(genuineRejected),
			"genuineRuns": int(genuineRuns), "tamperedRuns": int(tamperedRuns), "goroutines": 2 * perKind}}}
}

func init() {
	Drivers["isolation"] = func(e Env) (*Summary, error) {
		cases, err := readRawCases(e.Cases)
		if err != nil {
			return nil, err
		}
		dur := 2500 * time.Millisecond
		if e.Tier == "thorough" {
			dur = 8 * time.Second
		}
		if len(cases) == 1 { // a single scenario is a reproduction: give the interleaving time to occur again (the first wrong verdict ends it)
			dur = 15 * time.Second
		}
		var rs []Result
		for i := range cases { // one scenario at a time: each one is concurrent in itself
			rs = append(rs, RunIsolationCase(cases[i], caseID(cases[i], i), e.Seed, dur))
		}
		n, err := WriteTrace(e.Out, rs)
		if err != nil {
			return nil, err
		}
		return summarise("isolation", rs, n), nil
	}
}
