// Package drv holds the per-property drivers: they realise abstract cases with package gen,
// run the public API of go-tdx-guest, and record one ndjson event per observable step. The
// recorded traces are judged by TLC against the specifications in /verif/spec.
package drv

import (
	"bufio"
	"encoding/binary"
	"encoding/json"
	"fmt"
	"os"
	"runtime/debug"
	"sort"
	"sync"
	"time"

	pb "github.com/google/go-tdx-guest/proto/tdx"

	"verifharness/gen"
)

// Event is one trace line. Only JSON-encodable values.
type Event map[string]any

// Case is one abstract case handed over by the model checker.
type Case struct {
	ID   int               `json:"id"`
	W    map[string]string `json:"w"`
	Runs []map[string]any  `json:"runs"`
	X    map[string]any    `json:"x"` // property-specific payload
}

// ReadCases reads a JSON-lines case file.
func ReadCases(path string) ([]Case, error) {
	f, err := os.Open(path)
	if err != nil {
		return nil, err
	}
	defer f.Close()
	var out []Case
	sc := bufio.NewScanner(f)
	sc.Buffer(make([]byte, 1<<20), 1<<26)
	for sc.Scan() {
		if len(sc.Bytes()) == 0 {
			continue
		}
		var c Case
		if err := json.Unmarshal(sc.Bytes(), &c); err != nil {
			return nil, fmt.Errorf("bad case line: %v", err)
		}
		out = append(out, c)
	}
	return out, sc.Err()
}

// Result of running one case: its events in order, plus bookkeeping.
type Result struct {
	ID     int
	Events []Event
	Skip   string
	Sample any
}

// RunParallel runs fn over the cases on n workers and returns results in case order.
func RunParallel(cases []Case, n int, fn func(Case) Result) []Result {
	res := make([]Result, len(cases))
	var wg sync.WaitGroup
	ch := make(chan int)
	for i := 0; i < n; i++ {
		wg.Add(1)
		go func() {
			defer wg.Done()
			for j := range ch {
				res[j] = fn(cases[j])
			}
		}()
	}
	for j := range cases {
		ch <- j
	}
	close(ch)
	wg.Wait()
	return res
}

// WriteTrace writes all events (one JSON object per line) and returns the number of events.
func WriteTrace(path string, rs []Result) (int, error) {
	f, err := os.Create(path)
	if err != nil {
		return 0, err
	}
	defer f.Close()
	bw := bufio.NewWriterSize(f, 1<<20)
	n := 0
	for _, r := range rs {
		for _, e := range r.Events {
			b, err := json.Marshal(e)
			if err != nil {
				return n, err
			}
			bw.Write(b)
			bw.WriteByte('\n')
			n++
		}
	}
	return n, bw.Flush()
}

// Outcome of a guarded call.
type Outcome struct {
	Err     error
	Panic   string
	Timeout bool
	Dur     time.Duration
}

// Guard runs fn under recover with a watchdog.
func Guard(limit time.Duration, fn func() error) Outcome {
	done := make(chan Outcome, 1)
	start := time.Now()
	go func() {
		var o Outcome
		defer func() {
			if r := recover(); r != nil {
				o.Panic = fmt.Sprintf("%v\n%s", r, debug.Stack())
			}
			o.Dur = time.Since(start)
			done <- o
		}()
		o.Err = fn()
	}()
	select {
	case o := <-done:
		return o
	case <-time.After(limit):
		return Outcome{Timeout: true, Dur: limit}
	}
}

// Verdict maps an outcome to the trace vocabulary.
func (o Outcome) Verdict() string {
	switch {
	case o.Panic != "":
		return "panic"
	case o.Timeout:
		return "timeout"
	case o.Err != nil:
		return "reject"
	}
	return "accept"
}

// ErrText returns a short error text for informational fields.
func (o Outcome) ErrText() string {
	switch {
	case o.Panic != "":
		s := o.Panic
		if len(s) > 300 {
			s = s[:300]
		}
		return "PANIC: " + s
	case o.Timeout:
		return "TIMEOUT"
	case o.Err != nil:
		s := o.Err.Error()
		if len(s) > 240 {
			s = s[:240]
		}
		return s
	}
	return ""
}

func cp(b []byte) []byte { return append([]byte{}, b...) }

// MsgFromQuote builds the protobuf message for a quote from the generator's own field table,
// without going through abi.QuoteToProto. Size fields are the consistent ones unless overridden.
func MsgFromQuote(q *gen.Quote) *pb.QuoteV4 {
	f := func(region, name string, buf []byte) []byte { return cp(gen.FieldOf(region, name, buf)) }
	h, b, r := q.Header, q.Body, q.QEReport
	u16 := func(x []byte) uint32 { return uint32(binary.LittleEndian.Uint16(x)) }
	sds := uint32(q.SignedDataLen())
	if q.SignedDataSize != nil {
		sds = *q.SignedDataSize
	}
	cs := uint32(q.CertDataLen())
	if q.CertSize != nil {
		cs = *q.CertSize
	}
	ct := uint32(gen.CertTypeQE)
	if q.CertType != nil {
		ct = uint32(*q.CertType)
	}
	pt := uint32(gen.CertTypePCK)
	if q.PckType != nil {
		pt = uint32(*q.PckType)
	}
	ps := uint32(len(q.Chain))
	if q.PckSize != nil {
		ps = *q.PckSize
	}
	as := uint32(len(q.Auth))
	if q.AuthSize != nil {
		as = uint32(*q.AuthSize)
	}
	m := &pb.QuoteV4{
		Header: &pb.Header{
			Version: u16(f("header", "version", h)), AttestationKeyType: u16(f("header", "att_key_type", h)),
			TeeType: binary.LittleEndian.Uint32(f("header", "tee_type", h)),
			PceSvn:  f("header", "pce_svn", h), QeSvn: f("header", "qe_svn", h),
			QeVendorId: f("header", "qe_vendor_id", h), UserData: f("header", "user_data", h),
		},
		TdQuoteBody: &pb.TDQuoteBody{
			TeeTcbSvn: f("body", "tee_tcb_svn", b), MrSeam: f("body", "mr_seam", b), MrSignerSeam: f("body", "mr_signer_seam", b),
			SeamAttributes: f("body", "seam_attributes", b), TdAttributes: f("body", "td_attributes", b), Xfam: f("body", "xfam", b),
			MrTd: f("body", "mr_td", b), MrConfigId: f("body", "mr_config_id", b), MrOwner: f("body", "mr_owner", b),
			MrOwnerConfig: f("body", "mr_owner_config", b),
			Rtmrs:         [][]byte{f("body", "rtmr0", b), f("body", "rtmr1", b), f("body", "rtmr2", b), f("body", "rtmr3", b)},
			ReportData:    f("body", "report_data", b),
		},
		SignedDataSize: sds,
		SignedData: &pb.Ecdsa256BitQuoteV4AuthData{
			Signature: cp(q.Sig), EcdsaAttestationKey: cp(q.AK),
			CertificationData: &pb.CertificationData{
				CertificateDataType: ct, Size: cs,
				QeReportCertificationData: &pb.QEReportCertificationData{
					QeReport: &pb.EnclaveReport{
						CpuSvn: f("qereport", "cpu_svn", r), MiscSelect: binary.LittleEndian.Uint32(f("qereport", "misc_select", r)),
						Reserved1: f("qereport", "reserved1", r), Attributes: f("qereport", "attributes", r), MrEnclave: f("qereport", "mr_enclave", r),
						Reserved2: f("qereport", "reserved2", r), MrSigner: f("qereport", "mr_signer", r), Reserved3: f("qereport", "reserved3", r),
						IsvProdId: u16(f("qereport", "isv_prod_id", r)), IsvSvn: u16(f("qereport", "isv_svn", r)),
						Reserved4: f("qereport", "reserved4", r), ReportData: f("qereport", "report_data", r),
					},
					QeReportSignature:       cp(q.QESig),
					QeAuthData:              &pb.QeAuthData{ParsedDataSize: as, Data: cp(q.Auth)},
					PckCertificateChainData: &pb.PCKCertificateChainData{CertificateDataType: pt, Size: ps, PckCertChain: cp(q.Chain)},
				},
			},
		},
	}
	if len(q.Extra) > 0 {
		m.ExtraBytes = cp(q.Extra)
	}
	return m
}

// FullWorld merges a world over the baseline so that every dimension is present in the trace.
func FullWorld(w map[string]string) map[string]string {
	out := map[string]string{}
	for k, v := range gen.Baseline {
		out[k] = v
	}
	for k, v := range w {
		out[k] = v
	}
	return out
}

// SortedKeys returns the sorted keys of a map.
func SortedKeys(m map[string]string) []string {
	ks := make([]string, 0, len(m))
	for k := range m {
		ks = append(ks, k)
	}
	sort.Strings(ks)
	return ks
}

// readRawCases reads a JSON-lines case file into generic maps (for the small machines).
func readRawCases(path string) ([]map[string]any, error) {
	f, err := os.Open(path)
	if err != nil {
		return nil, err
	}
	defer f.Close()
	var out []map[string]any
	sc := bufio.NewScanner(f)
	sc.Buffer(make([]byte, 1<<20), 1<<26)
	for sc.Scan() {
		if len(sc.Bytes()) == 0 {
			continue
		}
		var c map[string]any
		if err := json.Unmarshal(sc.Bytes(), &c); err != nil {
			return nil, fmt.Errorf("bad case line: %v", err)
		}
		out = append(out, c)
	}
	return out, sc.Err()
}

// caseID returns the "id" of a raw case (1-based position otherwise).
func caseID(c map[string]any, pos int) int {
	if v, ok := c["id"].(float64); ok {
		return int(v)
	}
	return pos + 1
}

// summarise builds the summary of a small-machine driver run.
func summarise(name string, rs []Result, events int) *Summary {
	s := &Summary{Driver: name, Cases: len(rs), Events: events, Counts: map[string]int{}}
	for _, r := range rs {
		if r.Skip != "" {
			s.Skipped++
		}
		for _, ev := range r.Events {
			switch ev["ev"] {
			case "Call":
				s.Runs++
			case "Return":
				for _, k := range []string{"kind", "verdict", "result"} {
					if v, ok := ev[k].(string); ok {
						s.Counts[k+":"+v]++
					}
				}
			default:
				s.Counts["ev:"+fmt.Sprint(ev["ev"])]++
			}
		}
		if len(r.Events) > 0 && len(s.Samples) < 5 && (r.ID%7 == 1 || len(rs) < 20) {
			s.Samples = append(s.Samples, r.Events[:min(len(r.Events), 8)])
		}
	}
	return s
}
