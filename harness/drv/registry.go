package drv

import (
	"strconv"
	"strings"
)

// Env is what a driver gets from the command line.
type Env struct {
	Cases   string
	Out     string
	Seed    int64
	Workers int
	Tier    string
	Arg     string
}

// Summary is written next to the trace: measured counts and a few samples for the evidence file.
type Summary struct {
	Driver   string         `json:"driver"`
	Cases    int            `json:"cases"`
	Runs     int            `json:"runs"`
	Events   int            `json:"events"`
	Skipped  int            `json:"skipped"`
	Counts   map[string]int `json:"counts"`
	Samples  []any          `json:"samples"`
	Notes    []string       `json:"notes,omitempty"`
	Distinct int            `json:"distinct"`
}

// Driver runs a case file and produces a trace.
type Driver func(Env) (*Summary, error)

// Drivers is the registry, filled by init functions of the driver files.
var Drivers = map[string]Driver{}

func init() {
	Drivers["verify"] = func(e Env) (*Summary, error) {
		cases, err := ReadCases(e.Cases)
		if err != nil {
			return nil, err
		}
		cfg := VerifyCfg{Seed: e.Seed, BitsPer: 24, AltSweep: 4, MultiByte: 6}
		if e.Tier == "thorough" {
			cfg.BitsPer, cfg.AltSweep, cfg.MultiByte = 0, 64, 2000
		}
		if strings.HasPrefix(e.Arg, "bit=") {
			n, err := strconv.Atoi(e.Arg[4:])
			if err != nil {
				return nil, err
			}
			cfg.OnlyBit = &n
		}
		rs := RunParallel(cases, e.Workers, func(c Case) Result { return RunVerifyCase(c, cfg) })
		n, err := WriteTrace(e.Out, rs)
		if err != nil {
			return nil, err
		}
		s := &Summary{Driver: "verify", Cases: len(cases), Events: n, Counts: map[string]int{}}
		seen := map[string]bool{}
		for _, r := range rs {
			if r.Skip != "" {
				s.Skipped++
			}
			for _, ev := range r.Events {
				switch ev["ev"] {
				case "Call":
					s.Runs++
				case "Return":
					s.Counts["verdict:"+ev["verdict"].(string)]++
				case "Fetch":
					s.Counts["fetch:"+ev["kind"].(string)]++
				}
			}
			if len(r.Events) > 0 && len(s.Samples) < 6 && !seen[keyOf(r.Events[0])] {
				seen[keyOf(r.Events[0])] = true
				s.Samples = append(s.Samples, r.Events[:min(len(r.Events), 6)])
			}
		}
		return s, nil
	}
}

func keyOf(e Event) string {
	w, _ := e["w"].(map[string]string)
	k := ""
	for _, d := range SortedKeys(w) {
		if w[d] != "" {
			k += d + "=" + w[d] + ";"
		}
	}
	return k
}

func min(a, b int) int {
	if a < b {
		return a
	}
	return b
}
