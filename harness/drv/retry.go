package drv

import (
	"context"
	"errors"
	"fmt"
	"io"
	"math/rand"
	"net/url"
	"os"
	"reflect"
	"sync"
	"time"

	"github.com/google/go-tdx-guest/verify/trust"
)

type retryGetter struct {
	mu        sync.Mutex
	start     time.Time
	fails     int     // -1 forever
	calls     []int64 // offsets in ms... stored in microseconds
	hdr       map[string][]string
	body      []byte
	perCall   time.Duration
	url       string
	urlOk     bool
	slowFirst time.Duration
	errSeed   int
	ends      []int64
}

func (g *retryGetter) Get(u string) (map[string][]string, []byte, error) {
	g.mu.Lock()
	off := time.Since(g.start)
	g.calls = append(g.calls, off.Microseconds())
	i := len(g.calls)
	if u != g.url {
		g.urlOk = false
	}
	g.mu.Unlock()
	if g.perCall > 0 {
		time.Sleep(g.perCall)
	}
	if i == 1 && g.slowFirst > 0 { // one attempt that takes its time before it fails (a connect timeout, say)
		time.Sleep(g.slowFirst)
	}
	defer func() {
		g.mu.Lock()
		g.ends = append(g.ends, time.Since(g.start).Microseconds())
		g.mu.Unlock()
	}()
	if g.fails < 0 || i <= g.fails {
		// a failure is a failure whatever kind of error reports it (the wrapped getter's own deadlines and cancellations included)
		var err error
		switch (g.errSeed + i) % 6 {
		case 0:
			err = errors.New("scripted: temporary failure")
		case 1:
			err = fmt.Errorf("scripted: request failed: %w", context.DeadlineExceeded)
		case 2:
			err = &url.Error{Op: "Get", URL: u, Err: context.DeadlineExceeded}
		case 3:
			err = fmt.Errorf("scripted: %w", context.Canceled)
		case 4:
			err = os.ErrDeadlineExceeded
		default:
			err = io.ErrUnexpectedEOF
		}
		return map[string][]string{"X-Failed": {"1"}}, []byte("partial garbage"), err
	}
	return g.hdr, g.body, nil
}

// RunRetryCase runs one (timeout, max, fails) case. Times in ms.
func RunRetryCase(cs map[string]any, id int, seed int64) Result {
	rng := rand.New(rand.NewSource(seed*31337 + int64(id)))
	timeout := time.Duration(cs["timeout"].(float64)) * time.Millisecond
	max := time.Duration(cs["max"].(float64)) * time.Millisecond
	fails := int(cs["fails"].(float64))
	hdr := map[string][]string{"Tcb-Info-Issuer-Chain": {fmt.Sprintf("chain-%d", rng.Int63())}, "Content-Type": {"application/json"}}
	body := RandBytes(rng, 100+rng.Intn(1000))
	switch cs["resp"] { // a success is a success whatever it carries: empty or absent body, absent headers
	case "emptyBody":
		body = []byte{}
	case "nilBody":
		body = nil
	case "nilHeaders":
		hdr = nil
	case "allEmpty":
		body, hdr = []byte{}, map[string][]string{}
	}
	var hdrCopy map[string][]string
	if hdr != nil {
		hdrCopy = map[string][]string{}
	}
	for k, v := range hdr {
		hdrCopy[k] = append([]string{}, v...)
	}
	var bodyCopy []byte
	if body != nil {
		bodyCopy = append([]byte{}, body...)
	}
	g := &retryGetter{fails: fails, hdr: hdr, body: body, url: fmt.Sprintf("https://pcs.example/%d", rng.Int63()), urlOk: true, errSeed: id}
	if sf, ok := cs["slowFirst"].(float64); ok {
		g.slowFirst = time.Duration(sf) * time.Millisecond
	}
	if max == 0 {
		g.perCall = time.Millisecond // bounds the number of attempts of the "retry at once" schedule
	}
	r := &trust.RetryHTTPSGetter{Timeout: timeout, MaxRetryDelay: max, Getter: g}
	var gotH map[string][]string
	var gotB []byte
	g.start = time.Now()
	out := Guard(timeout+max+20*time.Second, func() error {
		var err error
		gotH, gotB, err = r.Get(g.url)
		return err
	})
	end := time.Since(g.start)
	// let a stray late attempt show up
	time.Sleep(max + 30*time.Millisecond)
	g.mu.Lock()
	calls := append([]int64{}, g.calls...)
	ends := append([]int64{}, g.ends...)
	g.mu.Unlock()
	prevDur := func(i int) int { // how long the attempt before attempt i+1 took, in ms (rounded down)
		if i == 0 || i-1 >= len(ends) {
			return 0
		}
		return int((ends[i-1] - calls[i-1]) / 1000)
	}
	evs := []Event{{"ev": "Call", "case": id, "input": cs}}
	const keep = 48
	for i, c := range calls {
		if i < keep {
			evs = append(evs, Event{"ev": "Attempt", "i": i + 1, "t": int(c / 1000), "prevDur": prevDur(i)})
		}
	}
	if len(calls) > keep {
		mn, mx := int64(1<<62), int64(0)
		for i := keep; i < len(calls); i++ {
			gap := calls[i]/1000 - calls[i-1]/1000
			if gap < mn {
				mn = gap
			}
			if gap > mx {
				mx = gap
			}
		}
		evs = append(evs, Event{"ev": "Rest", "count": len(calls) - keep, "min": int(mn), "max": int(mx), "last": int(calls[len(calls)-1] / 1000)})
	}
	kind := "ok"
	switch {
	case out.Panic != "":
		kind = "panic"
	case out.Timeout:
		kind = "hang"
	case out.Err != nil:
		kind = "error"
	}
	respOk := false
	if kind == "ok" {
		respOk = reflect.DeepEqual(gotH, hdrCopy) && reflect.DeepEqual(gotB, bodyCopy) && reflect.DeepEqual(hdr, hdrCopy) && g.urlOk
	}
	evs = append(evs, Event{"ev": "Return", "kind": kind, "t": int(end.Milliseconds()), "respOk": respOk, "attempts": len(calls), "err": out.ErrText()})
	return Result{ID: id, Events: evs}
}

func init() {
	Drivers["retry"] = func(e Env) (*Summary, error) {
		cases, err := readRawCases(e.Cases)
		if err != nil {
			return nil, err
		}
		idx := make([]Case, len(cases))
		for i := range cases {
			idx[i] = Case{ID: i}
		}
		// all cases sleep most of the time: run them all at once
		rs := RunParallel(idx, len(cases), func(c Case) Result { return RunRetryCase(cases[c.ID], caseID(cases[c.ID], c.ID), e.Seed) })
		n, err := WriteTrace(e.Out, rs)
		if err != nil {
			return nil, err
		}
		return summarise("retry", rs, n), nil
	}
}
