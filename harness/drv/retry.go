package drv

import (
	"errors"
	"fmt"
	"math/rand"
	"reflect"
	"sync"
	"time"

	"github.com/google/go-tdx-guest/verify/trust"
)

type retryGetter struct {
	mu      sync.Mutex
	start   time.Time
	fails   int // -1 forever
	calls   []int64 // offsets in ms... stored in microseconds
	hdr     map[string][]string
	body    []byte
	perCall time.Duration
	url     string
	urlOk   bool
}

func (g *retryGetter) Get(u string) (map[string][]string, []byte, error) {
	g.mu.Lock()
	off := time.Since(g.start)
	g.calls = append(g.calls, off.Microseconds())
	i := len(g.calls)
	if u != g.url {
		g.urlOk = false
	}
	g.mu.Unlock()
	if g.perCall > 0 {
		time.Sleep(g.perCall)
	}
	if g.fails < 0 || i <= g.fails {
		return map[string][]string{"X-Failed": {"1"}}, []byte("partial garbage"), errors.New("scripted: temporary failure")
	}
	return g.hdr, g.body, nil
}

// RunRetryCase runs one (timeout, max, fails) case. Times in ms.
func RunRetryCase(cs map[string]any, id int, seed int64) Result {
	rng := rand.New(rand.NewSource(seed*31337 + int64(id)))
	timeout := time.Duration(cs["timeout"].(float64)) * time.Millisecond
	max := time.Duration(cs["max"].(float64)) * time.Millisecond
	fails := int(cs["fails"].(float64))
	hdr := map[string][]string{"Tcb-Info-Issuer-Chain": {fmt.Sprintf("chain-%d", rng.Int63())}, "Content-Type": {"application/json"}}
	body := RandBytes(rng, 100+rng.Intn(1000))
	switch cs["resp"] { // a success is a success whatever it carries: empty or absent body, absent headers
	case "emptyBody":
		body = []byte{}
	case "nilBody":
		body = nil
	case "nilHeaders":
		hdr = nil
	case "allEmpty":
		body, hdr = []byte{}, map[string][]string{}
	}
	var hdrCopy map[string][]string
	if hdr != nil {
		hdrCopy = map[string][]string{}
	}
	for k, v := range hdr {
		hdrCopy[k] = append([]string{}, v...)
	}
	var bodyCopy []byte
	if body != nil {
		bodyCopy = append([]byte{}, body...)
	}
	g := &retryGetter{fails: fails, hdr: hdr, body: body, url: fmt.Sprintf("https://pcs.example/%d", rng.Int63()), urlOk: true}
	if max == 0 {
		g.perCall = time.Millisecond // bounds the number of attempts of the "retry at once" schedule
	}
	r := &trust.RetryHTTPSGetter{Timeout: timeout, MaxRetryDelay: max, Getter: g}
	var gotH map[string][]string
	var gotB []byte
	g.start = time.Now()
	out := Guard(timeout+max+20*time.Second, func() error {
		var err error
		gotH, gotB, err = r.Get(g.url)
		return err
	})
	end := time.Since(g.start)
	// let a stray late attempt show up
	time.Sleep(max + 30*time.Millisecond)
	g.mu.Lock()
	calls := append([]int64{}, g.calls...)
	g.mu.Unlock()
	evs := []Event{{"ev": "Call", "case": id, "input": cs}}
	const keep = 48
	for i, c := range calls {
		if i < keep {
			evs = append(evs, Event{"ev": "Attempt", "i": i + 1, "t": int(c / 1000)})
		}
	}
	if len(calls) > keep {
		mn, mx := int64(1<<62), int64(0)
		for i := keep; i < len(calls); i++ {
			gap := calls[i]/1000 - calls[i-1]/1000
			if gap < mn {
				mn = gap
			}
			if gap > mx {
				mx = gap
			}
		}
		evs = append(evs, Event{"ev": "Rest", "count": len(calls) - keep, "min": int(mn), "max": int(mx), "last": int(calls[len(calls)-1] / 1000)})
	}
	kind := "ok"
	switch {
	case out.Panic != "":
		kind = "panic"
	case out.Timeout:
		kind = "hang"
	case out.Err != nil:
		kind = "error"
	}
	respOk := false
	if kind == "ok" {
		respOk = reflect.DeepEqual(gotH, hdrCopy) && reflect.DeepEqual(gotB, bodyCopy) && reflect.DeepEqual(hdr, hdrCopy) && g.urlOk
	}
	evs = append(evs, Event{"ev": "Return", "kind": kind, "t": int(end.Milliseconds()), "respOk": respOk, "attempts": len(calls), "err": out.ErrText()})
	return Result{ID: id, Events: evs}
}

func init() {
	Drivers["retry"] = func(e Env) (*Summary, error) {
		cases, err := readRawCases(e.Cases)
		if err != nil {
			return nil, err
		}
		idx := make([]Case, len(cases))
		for i := range cases {
			idx[i] = Case{ID: i}
		}
		// all cases sleep most of the time: run them all at once
		rs := RunParallel(idx, len(cases), func(c Case) Result { return RunRetryCase(cases[c.ID], caseID(cases[c.ID], c.ID), e.Seed) })
		n, err := WriteTrace(e.Out, rs)
		if err != nil {
			return nil, err
		}
		return summarise("retry", rs, n), nil
	}
}
