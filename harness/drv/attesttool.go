package drv

import (
	"bytes"
	"encoding/base64"
	"encoding/hex"
	"errors"
	"math/rand"
	"os"
	"os/exec"
	"path/filepath"
	"strings"
	"time"

	"verifharness/gen"
)

// The attesttool driver (spec/AttestTool.tla): runs the real tools/attest binary (path in -arg) and records exit status, whether the
// output file exists afterwards, and the stage its FATAL line belongs to. There is no TDX device and no configfs-tsm in the test
// environment: the quote step itself always fails.
func RunAttestToolCase(cs map[string]any, id int, seed int64, tool string) Result {
	rng := rand.New(rand.NewSource(seed*92821 + int64(id)))
	str := func(k string) string { return cs[k].(string) }
	dir, err := os.MkdirTemp("", "verif-attest-")
	if err != nil {
		panic(err)
	}
	defer os.RemoveAll(dir)
	var in string
	switch str("in") {
	case "empty":
		in = ""
	case "hex64":
		in = hex.EncodeToString(gen.RandBytes(rng, 64))
	case "hex5":
		in = hex.EncodeToString(gen.RandBytes(rng, 5))
	case "hex4":
		in = hex.EncodeToString(gen.RandBytes(rng, 4))
	case "hex65":
		in = hex.EncodeToString(gen.RandBytes(rng, 65))
	case "hexOdd":
		in = hex.EncodeToString(gen.RandBytes(rng, 20))[:39]
	case "hexSpaced":
		in = "  " + hex.EncodeToString(gen.RandBytes(rng, 64)) + "\n"
	case "b64of64":
		in = base64.StdEncoding.EncodeToString(gen.RandBytes(rng, 64))
	case "b64of10":
		in = base64.StdEncoding.EncodeToString(append([]byte{0xfb, 0xff}, gen.RandBytes(rng, 8)...)) // has '+' or '/': not hex
	case "b64of65":
		in = base64.StdEncoding.EncodeToString(append([]byte{0xfb, 0xff}, gen.RandBytes(rng, 63)...))
	case "notEncoded":
		in = "this is neither hex nor base64 !!"
	case "notUtf8":
		in = string([]byte{0xff, 0xfe, 0x80, 0x41})
	default:
		panic("bad in " + str("in"))
	}
	args := []string{"-in", in, "-inform", str("inform"), "-outform", str("outform")}
	outPath := ""
	switch str("out") {
	case "file":
		outPath = filepath.Join(dir, "quote.out")
		args = append(args, "-out", outPath)
	case "dirMissing":
		outPath = filepath.Join(dir, "no-such-dir", "quote.out")
		args = append(args, "-out", outPath)
	}
	switch str("flags") {
	case "verbose":
		args = append(args, "-v", "-verbosity=2")
	case "unknownFlag":
		args = append([]string{"-no_such_flag=1"}, args...)
	case "badValue":
		args = append(args, "-verbosity=lots")
	}
	// no device anywhere: the configured device path does not exist
	args = append(args, "-tdx_guest_device_path", filepath.Join(dir, "no-tdx-guest"))
	if str("flags") == "positional" {
		args = append(args, "stray-argument")
	}
	cmd := exec.Command(tool, args...)
	var stderr, stdout bytes.Buffer
	cmd.Stderr, cmd.Stdout = &stderr, &stdout
	done := make(chan error, 1)
	if err := cmd.Start(); err != nil {
		panic(err)
	}
	go func() { done <- cmd.Wait() }()
	exit, hung := 0, false
	select {
	case err := <-done:
		var ee *exec.ExitError
		if errors.As(err, &ee) {
			exit = ee.ExitCode()
		} else if err != nil {
			panic(err)
		}
	case <-time.After(30 * time.Second):
		cmd.Process.Kill()
		hung = true
		exit = -2
	}
	se := stderr.String()
	created := false
	if outPath != "" {
		if _, err := os.Stat(outPath); err == nil {
			created = true
		}
	}
	stage := "quote"
	usage := strings.Contains(se, "Usage of ")
	switch {
	case usage:
		stage = "flags"
	case strings.Contains(se, "could not be decoded") || strings.Contains(se, "is not representable") || strings.Contains(se, "-inform should be") || strings.Contains(se, "as a UTF-8 string"):
		stage = "parse"
	case strings.Contains(se, "-outform is"):
		stage = "outform"
	case strings.Contains(se, "failed to open output file"):
		stage = "open"
	}
	tail := se
	if len(tail) > 300 {
		tail = tail[len(tail)-300:]
	}
	return Result{ID: id, Events: []Event{{"ev": "Call", "case": id, "input": cs},
		{"ev": "Return", "exit": exit, "crash": hung || strings.Contains(se, "panic:") || strings.Contains(se, "goroutine 1 ["), "fatalLine": strings.Contains(se, "FATAL"),
			"created": created, "stage": stage, "usage": usage, "stdoutLen": stdout.Len(), "stderr": tail, "result": "exit" + itoa(exit)}}}
}

func init() {
	Drivers["attesttool"] = func(e Env) (*Summary, error) {
		cases, err := readRawCases(e.Cases)
		if err != nil {
			return nil, err
		}
		idx := make([]Case, len(cases))
		for i := range cases {
			idx[i] = Case{ID: i}
		}
		rs := RunParallel(idx, e.Workers, func(c Case) Result { return RunAttestToolCase(cases[c.ID], caseID(cases[c.ID], c.ID), e.Seed, e.Arg) })
		n, err := WriteTrace(e.Out, rs)
		if err != nil {
			return nil, err
		}
		return summarise("attesttool", rs, n), nil
	}
}
