----------------------------- MODULE QuoteWire_Trace -----------------------------
(* Recorded calls of abi.QuoteToProto on byte strings realised from the wire cases (and from     *)
(* seeded sweeps beyond them: every truncation length, large auth data, real-size chains).  The  *)
(* logged facts are the total length and the size / type fields as written; the verdict must be   *)
(* the parser machine's, and for an accepted input the harness's independent checks must hold:    *)
(* every field is the slice the layout table dictates, re-serialisation reproduces the input,     *)
(* bytes 0..631 equal header || body as re-serialised on their own.                               *)
EXTENDS QuoteWire, Json
CONSTANTS TraceFile
Trace == ndJsonDeserialize(TraceFile)
VARIABLES l
tvars == <<vars, l>>
Mark(k) == TLCSet(42, IF TLCGet(42) > k THEN TLCGet(42) ELSE k)
IsEvent(ev) == l <= Len(Trace) /\ Trace[l].ev = ev /\ l' = l + 1
TInit == /\ f = Exact(0, 0) /\ a = 0 /\ e = 0 /\ stage = 1 /\ outcome = "idle" /\ l = 1 /\ TLCSet(42, 1)
TCall == /\ IsEvent("Call") /\ outcome # "none"
         /\ f' = Trace[l].facts /\ a' = Trace[l].input.a /\ e' = Trace[l].input.e
         /\ stage' = 1 /\ outcome' = "none"
Silent == /\ l <= Len(Trace) /\ UNCHANGED l /\ Next
TReturn == /\ IsEvent("Return") /\ outcome \in {"accept", "reject"}
           /\ outcome = Trace[l].result                                      \* "panic" / "timeout" match nothing
           /\ (outcome = "accept" => Trace[l].fieldsOk /\ Trace[l].reserialOk /\ Trace[l].prefixOk)
           /\ outcome' = "returned" /\ UNCHANGED <<f, a, e, stage>>
TNext == (TCall \/ Silent \/ TReturn) /\ Mark(l')
TSpec == TInit /\ [][TNext]_tvars
TraceAccepted == PrintT(<<"HWM", TLCGet(42)>>) /\ TLCGet(42) = Len(Trace) + 1
=================================================================================
