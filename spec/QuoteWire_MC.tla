------------------------------ MODULE QuoteWire_MC ------------------------------
EXTENDS QuoteWire, Json
ExportCase == (stage = 1 /\ outcome = "none") => PrintT(<<"CASE", ToJson([f |-> f, a |-> a, e |-> e, chain |-> ChainLen, exact |-> (f = Exact(a, e))])>>)
\* the layout table, for the cross-check with the harness's own table
ASSUME PrintT(<<"LAYOUT", ToJson(Layout)>>)
=================================================================================
