------------------------------ MODULE VerifyHistory ------------------------------
(***************************************************************************************)
(* Histories of verifications (C12, third clause; also what any cache or left-over       *)
(* state would break for C01..C07): several calls in one process, through one shared     *)
(* Options value or through fresh ones.  The Options value keeps per-call state in       *)
(* unexported fields (chain, extensions, collateral); every call overwrites all of them  *)
(* before it verifies, and the time set is never stored (after the F12 repair), so the   *)
(* verdict of a call is a function of that call's quote, option settings and fetched     *)
(* data alone.                                                                           *)
(* A history is built from three concrete worlds that share one seed (hence all keys     *)
(* and deterministic signatures):                                                        *)
(*   T  the honest twin of the faulty world (the world in which W's material is genuine) *)
(*   W  the faulty world (one deviating dimension)                                       *)
(*   B  another honest platform (other seed)                                             *)
(***************************************************************************************)
EXTENDS TdxVerify

CONSTANTS HistDims     \* dimensions from which the faulty world W is drawn (single deviations)

Wids == {"T", "W", "B"}
LevelsH == { [gc |-> FALSE, cr |-> FALSE], [gc |-> TRUE, cr |-> FALSE], [gc |-> TRUE, cr |-> TRUE] }
StepsH == [wid : Wids, gc : BOOLEAN, cr : BOOLEAN]
GoodStep(s) == ~(s.cr /\ ~s.gc)
FaultWorlds == UNION {Override(Baseline, {d}) : d \in HistDims}

\* the honest twin: baseline, except that material W borrows from another honest quote is that quote's own
Twin(f) == IF f.qeSigner = "otherLeaf" THEN [Baseline EXCEPT !.leafId = (IF f.leafId = "l1" THEN "l2" ELSE "l1")] ELSE Baseline
WorldOf(wid, f) == CASE wid = "T" -> Twin(f) [] wid = "W" -> f [] wid = "B" -> [Baseline EXCEPT !.modBranch = "modOk", !.sharedSigner = "shared"]

VARIABLES fault, shared, hist, k, stored, verdicts
hvars == <<fault, shared, hist, k, stored, verdicts>>

NoStore == [chain |-> "none", collateral |-> "none"]
HInit == /\ fault \in FaultWorlds /\ shared \in BOOLEAN
         /\ hist \in {<<a, b>> : a \in {s \in StepsH : GoodStep(s) /\ s.wid \in {"T", "B"}}, b \in StepsH}   \* the second call may also ask for revocation checking without collateral (refused, whatever the first call left behind)
         /\ k = 1 /\ stored = NoStore /\ verdicts = <<>>
         /\ w = Baseline /\ o = [gc |-> FALSE, cr |-> FALSE, now |-> "set", entry |-> "msg"] /\ pc = 1 /\ verdict = "none" /\ fetches = <<>> /\ dp = 1

OptOf(s) == [gc |-> s.gc, cr |-> s.cr, now |-> "set", entry |-> "msg"]
\* one call: store the per-call state (always, unconditionally), then verify from the stored state
Call == /\ k <= Len(hist)
        /\ LET s == hist[k] wk == WorldOf(s.wid, fault) IN
             /\ w' = wk /\ o' = OptOf(s)
             /\ stored' = [chain |-> s.wid, collateral |-> IF s.gc THEN s.wid ELSE "nil"]
             /\ verdicts' = Append(verdicts, CodeVerdict(wk, OptOf(s)))
        /\ k' = k + 1
        /\ UNCHANGED <<fault, shared, hist, pc, verdict, fetches, dp>>
HNext == Call
HSpec == HInit /\ [][HNext]_<<hvars, vars>>

\* the stored state always belongs to the current call; nothing of an earlier call survives
StoreIsCurrent == k > 1 => /\ stored.chain = hist[k - 1].wid
                           /\ stored.collateral = (IF hist[k - 1].gc THEN hist[k - 1].wid ELSE "nil")
\* hence every verdict is the stand-alone verdict, which satisfies the single-call properties
HistoryFree == \A i \in DOMAIN verdicts :
                  LET wi == WorldOf(hist[i].wid, fault) oi == OptOf(hist[i]) IN
                    /\ (verdicts[i] = "accept" => Necessary(wi, oi))
                    /\ (Honest(wi, oi) => verdicts[i] = "accept")
=================================================================================
