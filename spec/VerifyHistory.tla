------------------------------ MODULE VerifyHistory ------------------------------
(***************************************************************************************)
(* Histories of verifications (C12, third clause; also what any cache or left-over       *)
(* state would break for C01..C07): several calls in one process, through one shared     *)
(* Options value or through fresh ones.  The Options value keeps per-call state in       *)
(* unexported fields (chain, extensions, collateral); every call overwrites all of them  *)
(* before it verifies, and the time set is never stored (after the F12 repair), so the   *)
(* verdict of a call is a function of that call's quote, option settings and fetched     *)
(* data alone.                                                                           *)
(* A history is built from three concrete worlds that share one seed (hence all keys     *)
(* and deterministic signatures):                                                        *)
(*   T  the honest twin of the faulty world (the world in which W's material is genuine) *)
(*   W  the faulty world (one deviating dimension)                                       *)
(*   B  another honest platform (other seed)                                             *)
(***************************************************************************************)
EXTENDS TdxVerify

CONSTANTS HistDims,    \* dimensions from which the faulty world W is drawn (single deviations)
          HistPairs,   \* pairs <<d, e>> of dimensions whose double deviations are faulty worlds too
          HistQuick    \* TRUE: the quick selection of histories (below); FALSE: all of them

Wids == {"T", "W", "B"}
LevelsH == { [gc |-> FALSE, cr |-> FALSE], [gc |-> TRUE, cr |-> FALSE], [gc |-> TRUE, cr |-> TRUE] }
StepsH == [wid : Wids, gc : BOOLEAN, cr : BOOLEAN, entry : {"msg", "raw"}]     \* entry: TdxQuote on a message / RawTdxQuote on bytes
Mids == {"none", "levels", "addRoot"}     \* addRoot: the owner of the first call's options adds the quote's root to the pool RootOfTrustToOptions built for it     \* levels: SupportedTcbLevelsFromCollateral is called between the two calls, through the same Options value
GoodStep(s) == ~(s.cr /\ ~s.gc)
SingleWorlds == UNION {Override(Baseline, {d}) : d \in HistDims}
OnlyPairWorlds == UNION {Override(Baseline, {pr[1], pr[2]}) : pr \in HistPairs} \ SingleWorlds
FaultWorlds == SingleWorlds \cup OnlyPairWorlds

\* the honest twin: baseline, except that material W borrows from another honest quote is that quote's own
\* (and it configures its root of trust the way the faulty world does: from the same files, inline strings or directly)
Twin(f) == LET t == IF f.qeSigner = "otherLeaf" THEN [Baseline EXCEPT !.leafId = (IF f.leafId = "l1" THEN "l2" ELSE "l1")] ELSE Baseline
           IN IF f.rotVia \in {"files", "inline", "mixed"} THEN [t EXCEPT !.rotVia = f.rotVia] ELSE t
WorldOf(wid, f) == CASE wid = "T" -> Twin(f) [] wid = "W" -> f [] wid = "B" -> [Baseline EXCEPT !.modBranch = "modOk", !.sharedSigner = "shared"]

VARIABLES fault, shared, mid, hist, k, stored, verdicts
hvars == <<fault, shared, mid, hist, k, stored, verdicts>>

OptOf(s) == [gc |-> s.gc, cr |-> s.cr, now |-> "set", entry |-> s.entry]
NoStore == [chain |-> "none", collateral |-> "none"]
HInit == /\ fault \in FaultWorlds /\ shared \in BOOLEAN
         /\ hist \in {<<a, b>> : a \in {s \in StepsH : GoodStep(s)}, b \in StepsH}   \* the second call may also ask for revocation checking without collateral (refused, whatever the first call left behind)
         /\ mid \in Mids
         /\ ~(hist[1].entry = "raw" /\ hist[2].entry = "raw")
         /\ \A i \in 1..2 : Realisable(WorldOf(hist[i].wid, fault), OptOf(hist[i]))
         /\ (fault \in OnlyPairWorlds => mid \in {"none", "addRoot"})     \* double deviations serve those histories only
         /\ (hist[1].wid = "W" => mid = "addRoot")         \* the first call is on an honest world, except in the pool-ownership histories
         /\ (mid = "addRoot" => /\ ~shared /\ hist[1].wid = "W" /\ hist[2].wid = "W" /\ fault.rotVia \in {"files", "inline", "mixed"}
                                /\ hist[1].entry = "msg" /\ hist[2].entry = "msg" /\ ~hist[1].gc /\ ~hist[2].gc /\ ~hist[2].cr)
         /\ (mid = "levels" => shared /\ hist[1].gc)          \* the reporting call needs the collateral the first call fetched
         \* quick selection: every message/message history (the reporting call in between only before a call that asks for revocation
         \* checking) and, of those that mix the two entry points, the ones that keep the option level
         /\ (HistQuick => IF hist[1].entry = "msg" /\ hist[2].entry = "msg" THEN (mid \in {"none", "addRoot"} \/ hist[2].cr)
                          ELSE mid = "none" /\ hist[1].gc = hist[2].gc /\ hist[1].cr = hist[2].cr)
         /\ k = 1 /\ stored = NoStore /\ verdicts = <<>>
         /\ w = Baseline /\ o = [gc |-> FALSE, cr |-> FALSE, now |-> "set", entry |-> "msg"] /\ pc = 1 /\ verdict = "none" /\ fetches = <<>> /\ dp = 1

\* one call: store the per-call state (always, unconditionally), then verify from the stored state
Call == /\ k <= Len(hist)
        /\ LET s == hist[k] wk == WorldOf(s.wid, fault) IN
             /\ w' = wk /\ o' = OptOf(s)
             /\ stored' = [chain |-> s.wid, collateral |-> IF s.gc THEN s.wid ELSE "nil"]
             /\ verdicts' = Append(verdicts, CodeVerdict(wk, OptOf(s)))
        /\ k' = k + 1
        /\ UNCHANGED <<fault, shared, mid, hist, pc, verdict, fetches, dp>>
HNext == Call
HSpec == HInit /\ [][HNext]_<<hvars, vars>>

\* the stored state always belongs to the current call; nothing of an earlier call survives
StoreIsCurrent == k > 1 => /\ stored.chain = hist[k - 1].wid
                           /\ stored.collateral = (IF hist[k - 1].gc THEN hist[k - 1].wid ELSE "nil")
\* hence every verdict is the stand-alone verdict, which satisfies the single-call properties
HistoryFree == \A i \in DOMAIN verdicts :
                  LET wi == WorldOf(hist[i].wid, fault) oi == OptOf(hist[i]) IN
                    /\ (verdicts[i] = "accept" => Necessary(wi, oi))
                    /\ (Honest(wi, oi) => verdicts[i] = "accept")
=================================================================================
