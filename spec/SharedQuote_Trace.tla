----------------------------- MODULE SharedQuote_Trace -----------------------------
(* Judge of the recorded memory observations (C16):                                                    *)
(*  Footprint  - to-capacity snapshot diff of every caller-owned byte slice around one call: must be    *)
(*               exactly SharedQuote's footprint of that call kind (empty);                            *)
(*  Alias      - the parsed message did not change when the raw buffer was overwritten afterwards;      *)
(*  Race       - a run of the -race build: concurrent calls of the logged kinds on one message; the     *)
(*               number of data-race reports must be zero, as SharedQuote's NoRace says for these kinds, *)
(*               and every goroutine's verdict must equal the verdict of the call run alone.            *)
EXTENDS SharedQuote, Json
CONSTANTS TraceFile
Trace == ndJsonDeserialize(TraceFile)
VARIABLES l
Mark(k) == TLCSet(42, IF TLCGet(42) > k THEN TLCGet(42) ELSE k)
IsEvent(ev) == l <= Len(Trace) /\ Trace[l].ev = ev /\ l' = l + 1
TInit == l = 1 /\ TLCSet(42, 1) /\ kinds = [c \in Calls |-> "parse"] /\ pcs = [c \in Calls |-> 1] /\ version = [x \in Cells |-> 0]
         /\ seen = [c \in Calls |-> {}] /\ writers = [x \in Cells |-> {}]
TCall == IsEvent("Call")
TFootprint == /\ IsEvent("Footprint") /\ Trace[l].kind \in Kinds
              /\ {Trace[l].mutated[i] : i \in DOMAIN Trace[l].mutated} = Footprint(Trace[l].kind)
TAlias == IsEvent("Alias") /\ Trace[l].independent
RaceFree(ks) == \A i, j \in DOMAIN ks : i # j =>
                   \A x \in Cells : ~(\E a \in 1..Len(Steps(ks[i])) : Steps(ks[i])[a].cell = x /\ Steps(ks[i])[a].op = "w")
TRace == /\ IsEvent("Race")
         /\ RaceFree(Trace[l].kinds)              \* the model says these kinds do not race ...
         /\ Trace[l].reports = 0                  \* ... so the race detector must have nothing to report
         /\ Trace[l].verdictsStable
TReturn == IsEvent("Return") /\ Trace[l].result \notin {"panic", "timeout"}
TNext == (TCall \/ TFootprint \/ TAlias \/ TRace \/ TReturn) /\ Mark(l') /\ UNCHANGED vars
TSpec == TInit /\ [][TNext]_<<l, vars>>
TraceAccepted == PrintT(<<"HWM", TLCGet(42)>>) /\ TLCGet(42) = Len(Trace) + 1
=================================================================================
