------------------------------ MODULE PckExt_Trace ------------------------------
(* Recorded calls of pcs.PckCertificateExtensions on generated certificates.  The harness compares *)
(* the returned values with the ones it encoded ("values" = all equal, "wrong" = returned without  *)
(* error but different); the result must be the declarative one of PckExt.  The fold's steps are   *)
(* silent.  "wrong" and "panic" match nothing.                                                     *)
EXTENDS PckExt, Json
CONSTANTS TraceFile
Trace == ndJsonDeserialize(TraceFile)
VARIABLES l
tvars == <<vars, l>>
Mark(k) == TLCSet(42, IF TLCGet(42) > k THEN TLCGet(42) ELSE k)
IsEvent(e) == l <= Len(Trace) /\ Trace[l].ev = e /\ l' = l + 1
AnyCase == [top |-> <<"ppid", "tcb", "pceid", "fmspc">>, extras |-> "none", tcbOrder |-> "canon", struct |-> "none", target |-> "ppid", dev |-> "none", cls |-> "ok"]
TInit == /\ c = AnyCase /\ pc = "done" /\ i = 1 /\ seen = {} /\ result = "idle" /\ l = 1 /\ TLCSet(42, 1)
TCall == /\ IsEvent("Call") /\ pc = "done"
         /\ c' = Trace[l].input /\ pc' = "outer" /\ i' = 1 /\ seen' = {} /\ result' = "none"
Silent == /\ l <= Len(Trace) /\ UNCHANGED l /\ Next
TReturn == /\ IsEvent("Return") /\ Done /\ result \in {"values", "error"}
           /\ Allowed(Expected(c), Trace[l].result)          \* judged by the declarative result, not by the fold
           /\ result' = "returned" /\ UNCHANGED <<c, pc, i, seen>>
TNext == (TCall \/ Silent \/ TReturn) /\ Mark(l')
TSpec == TInit /\ [][TNext]_tvars
TraceAccepted == PrintT(<<"HWM", TLCGet(42)>>) /\ TLCGet(42) = Len(Trace) + 1
=================================================================================
