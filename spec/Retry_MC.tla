-------------------------------- MODULE Retry_MC --------------------------------
EXTENDS Retry, Json
FailsAll == {-1, 0, 1, 2, 3, 5}
ExportCase == (phase = "ready" /\ n = 0) => PrintT(<<"CASE", ToJson([timeout |-> Timeout, max |-> Max, fails |-> fails, init2 |-> Init2])>>)
=================================================================================
