--------------------------------- MODULE ExtendTool ---------------------------------
(***************************************************************************************)
(* tools/extend: the guest-side command line around rtmr.ExtendEventLog (Rtmr.tla is    *)
(* the specification of the library call; not one of the listed properties).            *)
(*   ParseFlags -> ReadLog -> MakeClient -> Extend                                       *)
(* The event log comes from -in (a file, or standard input for "-"); -rtmr names the     *)
(* register; -quiet silences the FATAL line of a failing run (exit status 1 either way; *)
(* the flag package's own refusals -- usage text, exit status 2 -- are not silenced).    *)
(* As coded, the register index and the emptiness of the log are looked at only by the  *)
(* library, after the configfs-tsm client exists.  In the test environment there is no  *)
(* configfs-tsm, so MakeClient fails: what is specified (and bound to the real binary)  *)
(* is the stage a run reaches, its exit status and whether it says why.                  *)
(***************************************************************************************)
EXTENDS Integers, Sequences, TLC

Ins == {"stdinData", "stdinEmpty", "file", "fileEmpty", "fileMissing", "directory"}
Indices == {"default", "2", "3", "0", "4", "minus1", "notNumber"}       \* notNumber: refused by the flag package
Quiets == {FALSE, TRUE}
Verbosities == {"default", "1", "notNumber"}
Tsms == {"absent"}                                                       \* the environment: no configfs-tsm ("present" is Rtmr.tla's subject)

VARIABLES in, index, quiet, verbosity, tsm, pc, exit, said
vars == <<in, index, quiet, verbosity, tsm, pc, exit, said>>
Init == /\ in \in Ins /\ index \in Indices /\ quiet \in Quiets /\ verbosity \in Verbosities /\ tsm \in Tsms
        /\ pc = "flags" /\ exit = -1 /\ said = "nothing"
FlagsRefused == index = "notNumber" \/ verbosity = "notNumber"
ReadFails == in \in {"fileMissing", "directory"}
Die == exit' = 1 /\ pc' = "done" /\ said' = (IF quiet THEN "nothing" ELSE "fatal")
Same == UNCHANGED <<in, index, quiet, verbosity, tsm>>
ParseFlags == /\ pc = "flags" /\ Same
              /\ IF FlagsRefused THEN exit' = 2 /\ pc' = "done" /\ said' = "usage" ELSE pc' = "read" /\ UNCHANGED <<exit, said>>
ReadLog    == /\ pc = "read" /\ Same /\ (IF ReadFails THEN Die ELSE pc' = "client" /\ UNCHANGED <<exit, said>>)
MakeClient == /\ pc = "client" /\ Same /\ (IF tsm = "absent" THEN Die ELSE pc' = "extend" /\ UNCHANGED <<exit, said>>)
\* with a TSM the library decides (Rtmr.tla): refused for an empty log or an index outside 0..3 -- the tool itself never looks at -rtmr,
\* although its help text says "Must be 2 or 3"
LogEmpty(i) == i \in {"stdinEmpty", "fileEmpty"}
IndexValue(x) == CASE x \in {"default", "2"} -> 2 [] x = "3" -> 3 [] x = "0" -> 0 [] x = "4" -> 4 [] x = "minus1" -> -1
LibraryRefuses(i, x) == LogEmpty(i) \/ x \in {"4", "minus1"}            \* SystemAbstraction checks this against Rtmr!Valid
Extend     == /\ pc = "extend" /\ Same
              /\ IF LibraryRefuses(in, index) THEN Die ELSE exit' = 0 /\ pc' = "done" /\ said' = said
Next == ParseFlags \/ ReadLog \/ MakeClient \/ Extend
Spec == Init /\ [][Next]_vars

Done == pc = "done"
\* DEV (as coded; the same observation as for tools/check): -quiet is documented as "writes nothing [to] stdout or stderr", but setting the
\* logger's level (whatever -verbosity says, the default included) makes the logger announce it on standard output, -quiet or not.  The
\* FATAL line is what -quiet silences.
StdoutLines == IF ~FlagsRefused THEN 1 ELSE 0
EndStage == IF FlagsRefused THEN "flags" ELSE IF ReadFails THEN "read" ELSE IF tsm = "absent" THEN "client" ELSE "extend"
TypeOK == exit \in {-1, 0, 1, 2} /\ said \in {"nothing", "fatal", "usage"}
QuietSaysNothingOfItsOwn == (Done /\ quiet /\ ~FlagsRefused) => said = "nothing"
FailureIsSaid == (Done /\ exit = 1 /\ ~quiet) => said = "fatal"
NoSuccessWithoutTsm == (Done /\ tsm = "absent") => exit # 0
=================================================================================
