--------------------------------- MODULE Ccel_MC ---------------------------------
EXTENDS Ccel, Json
ExportCase == (pc \in {"verify", "prior"} /\ result = "none" /\ (pc = "verify" => prior = "none")) => PrintT(<<"CASE", ToJson([v |-> v, p |-> p, f |-> f, lvl |-> lvl, ld |-> ld, cf |-> cf, prior |-> prior, lg |-> lg])>>)
=================================================================================
