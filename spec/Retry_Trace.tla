------------------------------- MODULE Retry_Trace -------------------------------
(* Recorded runs of trust.RetryHTTPSGetter.Get around a scripted getter (millisecond offsets  *)
(* from a monotonic clock) must be behaviours of Retry for the run's Timeout / Max (constants *)
(* of this TLC run, in ms).  Unlogged steps are composed analytically:                        *)
(*   Attempt event i>1  =  Finish(d) . TimerFires . StartAttempt   with the wait bound to the  *)
(*                         observed gap:  scheduled <= gap <= scheduled + Slack               *)
(*   Return(error)      =  Finish(d) . DeadlineFires                                           *)
(* Lower bounds are strict (timers never fire early); upper bounds carry Slack.               *)
EXTENDS Retry, Json

CONSTANTS TraceFile, Slack
Trace == ndJsonDeserialize(TraceFile)
VARIABLES l
tvars == <<vars, l>>

Mark(k) == TLCSet(42, IF TLCGet(42) > k THEN TLCGet(42) ELSE k)
IsEvent(e) == l <= Len(Trace) /\ Trace[l].ev = e /\ l' = l + 1

TInit == /\ fails = 0 /\ now = 0 /\ delay = Init2 /\ n = 0 /\ phase = "done" /\ waitFrom = 0
         /\ result = "idle" /\ waits = <<>> /\ l = 1 /\ TLCSet(42, 1)

TCall == /\ IsEvent("Call") /\ phase = "done"
         /\ Trace[l].input.timeout = Timeout /\ Trace[l].input.max = Max     \* chunks are split per parameter pair
         /\ fails' = Trace[l].input.fails
         /\ now' = 0 /\ delay' = Init2 /\ n' = 0 /\ phase' = "ready" /\ waitFrom' = 0 /\ result' = "none" /\ waits' = <<>>

\* first attempt: StartAttempt, at once
TFirst == /\ IsEvent("Attempt") /\ n = 0 /\ StartAttempt
          /\ Trace[l].t <= Slack

\* later attempt: the previous one failed, the scheduled delay elapsed (and not more than Slack beyond it),
\* and the timer was due before the deadline (or the delay is zero)
TRetry == /\ IsEvent("Attempt") /\ phase = "inflight" /\ n >= 1 /\ AttemptFails(n)
          /\ LET sched == NextDelay(delay) t == Trace[l].t d == Trace[l].prevDur IN      \* d: how long the failed attempt took (ms, rounded down)
               /\ t - now >= sched + d /\ t - now <= sched + d + 1 + Slack            \* the wait starts when the attempt has failed: it is not shortened by it
               /\ (now + sched <= Timeout + Slack \/ sched = 0)
               /\ delay' = sched /\ waits' = Append(waits, sched)
               /\ now' = t /\ n' = n + 1 /\ waitFrom' = t
          /\ UNCHANGED <<fails, phase, result>>

\* a block of attempts that the recorder summarised (count, smallest and largest gap): all at the capped delay
TRest == /\ IsEvent("Rest") /\ phase = "inflight" /\ (fails = -1 \/ n + Trace[l].count <= fails + 1)
         /\ NextDelay(delay) = Max /\ NextDelay(Max) = Max
         /\ Trace[l].min >= Max /\ Trace[l].max <= Max + Slack
         /\ delay' = Max /\ n' = n + Trace[l].count /\ now' = Trace[l].last /\ waitFrom' = Trace[l].last
         /\ UNCHANGED <<fails, phase, result, waits>>

TReturnOk == /\ IsEvent("Return") /\ Trace[l].kind = "ok"
             /\ phase = "inflight" /\ ~AttemptFails(n)                     \* Finish: first success
             /\ Trace[l].respOk                                            \* headers and body are the wrapped getter's, unmodified
             /\ Trace[l].attempts = n                                      \* the wrapped getter was called exactly n times in total
             /\ result' = "ok" /\ phase' = "done" /\ now' = Trace[l].t
             /\ UNCHANGED <<fails, delay, n, waitFrom, waits>>

TReturnErr == /\ IsEvent("Return") /\ Trace[l].kind = "error"
              /\ phase = "inflight" /\ AttemptFails(n)                     \* Finish(d) . DeadlineFires
              /\ Trace[l].t >= Timeout                                     \* never before the deadline
              /\ Trace[l].t <= Timeout + Max + Slack + (IF "lastDur" \in DOMAIN Trace[l] THEN Trace[l].lastDur ELSE 0)      \* "roughly timeout plus one retry delay"
              /\ now + NextDelay(delay) + Slack >= Timeout                 \* the retry timer was not clearly due first
              /\ Trace[l].attempts = n
              /\ result' = "error" /\ phase' = "done" /\ now' = Trace[l].t
              /\ UNCHANGED <<fails, delay, n, waitFrom, waits>>

TNext == (TCall \/ TFirst \/ TRetry \/ TRest \/ TReturnOk \/ TReturnErr) /\ Mark(l')
TSpec == TInit /\ [][TNext]_tvars
TraceAccepted == PrintT(<<"HWM", TLCGet(42)>>) /\ TLCGet(42) = Len(Trace) + 1
=================================================================================
