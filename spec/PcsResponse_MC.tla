----------------------------- MODULE PcsResponse_MC -----------------------------
EXTENDS PcsResponse, Json
ExportCase == (i = 1 /\ outcome = "none") => PrintT(<<"CASE", ToJson([d1 |-> c[1], d2 |-> c[2]])>>)
=================================================================================
