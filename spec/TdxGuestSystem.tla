------------------------------ MODULE TdxGuestSystem ------------------------------
(***************************************************************************************)
(* Composition of the whole library: a guest obtains a quote from its device             *)
(* (GuestClient), the bytes travel to a relying party, are parsed (QuoteWire), verified  *)
(* (TdxVerify) and validated against a policy (Policy); the relying party then either    *)
(* uses the result directly, or replays an event log against it (Ccel).                  *)
(* Each component appears with the abstraction its own specification justifies:          *)
(*   device   good / any failing behaviour          (GuestClient.DeviceYieldsData)        *)
(*   transit  intact / altered inside a signed region / altered outside / truncated /    *)
(*            bytes appended                                                              *)
(*   parse    accepts iff the bytes still follow the layout (QuoteWire.FollowsLayout)     *)
(*   verify   accepts iff every link holds at the chosen level (TdxVerify.Necessary and   *)
(*            Honest coincide on the worlds used here)                                    *)
(*   policy   accepts iff the quote meets it (Policy.Literal)                             *)
(* End-to-end claims: nothing is delivered unless the guest's device behaved, the bytes   *)
(* arrived with every signed byte intact, the issuer is trusted and the policy holds;     *)
(* and an honest run is delivered at every level (refines C11, C15, C09, C18, C19).       *)
(***************************************************************************************)
EXTENDS Naturals, Sequences, FiniteSets, TLC

Devices  == {"good", "reportFails", "quoteFails", "badStatus", "zeroLength"}
Transits == {"intact", "flipSigned", "flipUnsignedSize", "flipExtra", "truncated", "appended"}
\*   flipSigned: one bit of header / TD body / attestation key / QE report / auth data / a signature
\*   flipUnsignedSize: one bit of a size or type field;  flipExtra: one bit of the bytes after the signed data (not covered by any signature)
Trusts   == {"trusted", "otherRoot"}
Levels   == {0, 1, 2}
Collats  == {"ok", "tcbOutOfDate", "leafRevoked"}          \* what the PCS serves
Policies == {"met", "nonceDiffers"}
Consumers == {"direct", "eventLog"}
LogFits  == {"matches", "rtmrDiffers"}                      \* does the event log replay to the quote's RTMRs

VARIABLES dev, transit, trust, lvl, collat, pol, consumer, logfit, pc, delivered
vars == <<dev, transit, trust, lvl, collat, pol, consumer, logfit, pc, delivered>>

Init == /\ dev \in Devices /\ transit \in Transits /\ trust \in Trusts /\ lvl \in Levels /\ collat \in Collats
        /\ pol \in Policies /\ consumer \in Consumers /\ logfit \in LogFits
        /\ pc = "guest" /\ delivered = "none"

Stop(r) == delivered' = r /\ pc' = "done"
Keep == UNCHANGED <<dev, transit, trust, lvl, collat, pol, consumer, logfit>>

\* guest side: client.GetRawQuote
Guest == /\ pc = "guest" /\ (IF dev = "good" THEN pc' = "parse" /\ delivered' = delivered ELSE Stop("guestError")) /\ Keep
\* relying party: abi.QuoteToProto on what arrived
ParseOk == transit \in {"intact", "flipSigned", "flipExtra", "appended"}      \* appended bytes are "extra bytes"; a flipped size/type field or a cut breaks the layout
Parse == /\ pc = "parse" /\ (IF ParseOk THEN pc' = "verify" /\ delivered' = delivered ELSE Stop("rejected")) /\ Keep
\* verify.TdxQuote at the chosen level
CollatOk == CASE lvl = 0 -> TRUE [] lvl = 1 -> collat # "tcbOutOfDate" [] lvl = 2 -> collat = "ok"
VerifyOk == transit # "flipSigned" /\ trust = "trusted" /\ CollatOk
Verify == /\ pc = "verify" /\ (IF VerifyOk THEN pc' = "validate" /\ delivered' = delivered ELSE Stop("rejected")) /\ Keep
\* validate.TdxQuote
Validate == /\ pc = "validate"
            /\ IF pol # "met" THEN Stop("rejected")
               ELSE IF consumer = "direct" THEN Stop("quote") ELSE pc' = "replay" /\ delivered' = delivered
            /\ Keep
\* rtmr.ParseCcelWithTdQuote's replay
Replay == /\ pc = "replay" /\ (IF logfit = "matches" THEN Stop("logState") ELSE Stop("rejected")) /\ Keep
Next == Guest \/ Parse \/ Verify \/ Validate \/ Replay
Spec == Init /\ [][Next]_vars

Done == pc = "done"
TypeOK == delivered \in {"none", "guestError", "rejected", "quote", "logState"}
\* soundness end to end
DeliveredOnlyIfAllHolds ==
  delivered \in {"quote", "logState"} =>
     /\ dev = "good"
     /\ transit \in {"intact", "flipExtra", "appended"}          \* every signed byte arrived intact
     /\ trust = "trusted" /\ CollatOk /\ pol = "met"
     /\ (delivered = "logState" => logfit = "matches")
\* completeness end to end
HonestRunIsDelivered ==
  (Done /\ dev = "good" /\ transit = "intact" /\ trust = "trusted" /\ collat = "ok" /\ pol = "met" /\ (consumer = "eventLog" => logfit = "matches"))
     => delivered = (IF consumer = "direct" THEN "quote" ELSE "logState")
\* more checking never delivers more
Lvl(l) == [dev |-> dev, transit |-> transit, trust |-> trust, collat |-> collat, pol |-> pol]
MoreCheckingNeverDeliversMore ==
  \A a, b \in Levels : a < b =>
     ((CASE b = 1 -> collat # "tcbOutOfDate" [] b = 2 -> collat = "ok" [] OTHER -> TRUE) =>
      (CASE a = 0 -> TRUE [] a = 1 -> collat # "tcbOutOfDate" [] OTHER -> collat = "ok"))
=================================================================================
