------------------------------- MODULE PcsResponse -------------------------------
(***************************************************************************************)
(* The space of responses a (malicious or broken) collateral endpoint can return (C10,   *)
(* second half): per endpoint a header shape and a body shape drawn from a small         *)
(* grammar around Intel's documents.  The verifier's obligation is totality: whatever    *)
(* comes back, verify.TdxQuote returns nil or an error.  The machine below is the        *)
(* fetch sequence of obtainCollateral; each fetch either yields something usable         *)
(* (continue) or not (reject); no third outcome exists.                                  *)
(***************************************************************************************)
EXTENDS Naturals, Sequences, FiniteSets, TLC

Endpoints == <<"tcb", "qe", "pckcrl", "rootcrl">>
HeaderShapes == {"ok", "nilMap", "missing", "emptyList", "emptyString", "badEscape", "notPem", "onePem", "rootOddDp", "pemOtherType",
                 "truncatedDer", "threeCerts", "hugeJunk"}
JsonBodies == {"ok", "empty", "notJson", "jsonNull", "jsonArray", "jsonNumber", "memberNull", "memberString", "memberArray",
               "signatureNumber", "signatureMissing", "signatureOddHex", "signatureShort", "versionString", "versionHuge", "versionNegative",
               "levelsNull", "levelsObject", "svnOutOfRange", "svnNegative", "svnString", "componentsShort", "componentsLong",
               "statusUnknown", "statusNumber", "dateGarbage", "hexOdd", "hexNotHex", "deeplyNested", "truncated", "utf8Garbage",
               "identitiesNull", "identityLevelsNull", "identityIdsOdd", "identityIdTypes", "maskShort", "maskLong"}
CrlBodies == {"ok", "empty", "garbage", "truncated", "pemInsteadOfDer", "certInsteadOfCrl", "hugeJunk", "noNumber"}
BodiesOf(ep) == IF ep \in {"tcb", "qe"} THEN JsonBodies ELSE CrlBodies

\* a case deviates on one endpoint (header or body) or on two endpoints
Dev == [ep : {"tcb", "qe", "pckcrl", "rootcrl"}, part : {"header", "body"}, shape : HeaderShapes \cup JsonBodies \cup CrlBodies]
WellFormedDev(d) == IF d.part = "header" THEN d.shape \in HeaderShapes /\ d.ep # "rootcrl"    \* no issuer-chain header is read for the Root CA CRL
                    ELSE d.shape \in BodiesOf(d.ep)
NoDev == [ep |-> "tcb", part |-> "body", shape |-> "ok"]
Singles == {d \in Dev : WellFormedDev(d)}

CONSTANT Pairs   \* TRUE: also all pairs of deviations on different endpoints
Cases == {<<d, NoDev>> : d \in Singles}
         \cup (IF Pairs THEN {<<d, e>> : d \in {x \in Singles : x.shape # "ok"}, e \in {x \in Singles : x.shape # "ok"}} ELSE {})

VARIABLES c, i, outcome
vars == <<c, i, outcome>>
Init == c \in Cases /\ i = 1 /\ outcome = "none"
Usable(ep) == \A k \in 1..2 : ~(c[k].ep = ep /\ c[k].shape # "ok")
Fetch == /\ outcome = "none" /\ i <= Len(Endpoints)
         /\ IF Usable(Endpoints[i]) THEN i' = i + 1 /\ outcome' = outcome
            ELSE outcome' \in {"reject", "none"} /\ i' = i + 1       \* a deviating response may still be usable (e.g. an unknown extra header)
         /\ UNCHANGED c
Finish == /\ outcome = "none" /\ i = Len(Endpoints) + 1 /\ outcome' \in {"accept", "reject"} /\ UNCHANGED <<c, i>>
Next == Fetch \/ Finish
Spec == Init /\ [][Next]_vars
TypeOK == outcome \in {"none", "accept", "reject"}     \* totality: there is no crash / hang outcome
=================================================================================
