-------------------------------- MODULE TdxVerify --------------------------------
(***************************************************************************************)
(* The verify.TdxQuote pipeline of google/go-tdx-guest over an abstract world.          *)
(*                                                                                     *)
(* A world is one value per dimension (who signed what, which PKI issued which          *)
(* certificate, what the collateral endpoint answered, which clock is past which        *)
(* expiry).  The honest baseline is the first value of every dimension.  The pipeline   *)
(* is modelled as coded, one action per stage of verify.go (tdxQuoteV4 ->              *)
(* verifyEvidenceV4 -> verifyQuote); the listed properties are written separately and   *)
(* declaratively (N01..N07, Honest, Gating, Monotone) so that TLC's job is to show that *)
(* the ordered pipeline implies them, and so that recorded executions of the real code  *)
(* can be judged against the declarative side only (TdxVerify_Judge) or against the     *)
(* pipeline itself (TdxVerify_Trace).                                                   *)
(***************************************************************************************)
EXTENDS Naturals, Sequences, FiniteSets, TLC

CONSTANTS K,       \* fault budget over all dimensions
          Focus,   \* dimensions whose pairs (budget 2) are enumerated in addition
          OptSet,  \* which option settings are explored: "levels" | "all" (adds revocation-without-collateral)
          NowVals  \* subset of {"set", "unset"}: explicit time set and/or wall clock

(* ---------------------------------------------------------------------------------- *)
(* Dimensions.  Every value has exactly one realisation rule in harness/gen/world.go.   *)

Dims == [
  \* quote links (C01)
  qsig     |-> <<"ok", "otherKey", "zero", "sHigh">>,
  ak       |-> <<"ok", "offCurve", "zero", "swapped">>,
  mut      |-> <<"none", "header", "body", "ak", "qeReport", "authData", "sig", "qeSig">>,
  bind     |-> <<"ok", "wrongHash", "nonZeroTail", "authPrefix", "akOnly", "authSuffix">>,
  qeSigner |-> <<"leaf", "otherLeaf", "inter", "foreign">>,   \* otherLeaf: the platform's other PCK key (valid for a quote embedding that leaf)
  authLen  |-> <<"n32", "n0", "big">>,
  extra    |-> <<"none", "some">>,
  \* chain and trust (C02)
  leafPki  |-> <<"A", "B">>,
  interPki |-> <<"A", "B">>,
  rootPki  |-> <<"A", "B">>,
  pool     |-> <<"A", "B", "AB", "empty", "nil", "AI">>,     \* AI: root A and the platform CA certificate the quote carries (the same certificate, whatever its dates)
  rotVia   |-> <<"pool", "files", "inline", "mixed", "fileEmpty", "inlineNonPem">>,   \* how the caller builds the pool: directly, or with
                                               \* RootOfTrustToOptions from bundle files / inline PEM / both / an empty file / a non-PEM string
  leafRole |-> <<"pck", "wrongCN", "pckByRoot", "caAsLeaf", "tcbSignByRoot", "cnUpper", "cnSpace", "cnKelvin">>,   \* cn*: issued like a PCK leaf, named almost like one (case, trailing space, a Unicode look-alike letter)
  leafId   |-> <<"l1", "l2">>,                 \* which of the platform's two PCK leaves the chain carries (both honest)
  msgWide  |-> <<"none", "version", "akType", "certType", "pckCertType", "authSize", "isvProdId", "isvSvn", "isvSvnPlus65536">>,
               \* a QuoteV4 *message* whose numeric field exceeds the width the wire format gives it (the low bits are the genuine value): not a quote
  leafExtCritical |-> <<"no", "yes">>,      \* the PCK leaf marks its SGX extension critical (Intel does not): x509 path building refuses an unhandled critical extension
  sgxValues |-> <<"random", "derLike">>,    \* PPID / PCE-ID / FMSPC / CPUSVN bytes that happen to read as DER of a shorter octet string
  sgxOrder |-> <<"canon", "reversed", "interleaved">>,   \* order in which the PCK leaf's SGX extension lists its elements (each is found by its OID)
  sigShape |-> <<"any", "quoteshortR", "quoteshortS", "qeReportshortR", "qeReportshortS", "tcbInfoshortR", "tcbInfoshortS",
                "enclaveIdentityshortR", "enclaveIdentityshortS">>,   \* a raw signature scalar with leading zero bytes (its DER INTEGER is shorter): still a valid signature
  serials  |-> <<"std", "oddHex", "highBit", "tiny">>,   \* shape of every certificate serial: even hex digits / top nibble zero / top bit set (DER pads with 00) / single byte
  interSlot |-> <<"inter", "root", "otherCA">>,           \* certificate carried in the intermediate position of the chain
  src      |-> <<"gen", "intel">>,             \* generated world / the genuine Intel sample quote with its recorded collateral
  nBlocks  |-> <<"n3", "n2", "n4">>,
  trailer  |-> <<"none", "nul", "nulnul", "junk">>,
  pemType  |-> <<"cert", "other">>,
  interCN  |-> <<"platform", "processor">>,
  \* collateral authenticity (C03), one group per document
  tcbSigner   |-> <<"ok", "pkiB", "wrongRole", "rootDirect", "selfSigned", "lookalikeSameSerial", "pkiBSameSki", "ekuOther">>,
  tcbOver     |-> <<"member", "wholeBody", "reencoded">>,
  tcbAlter    |-> <<"none", "memberBit", "sigBit", "sigMissing", "sigNull", "sigEmpty">>,
  tcbExtra    |-> <<"none", "dupBefore", "dupAfter", "caseBefore", "caseAfter", "foldAfter">>,
  tcbHdr      |-> <<"ok", "missing", "duplicated", "empty", "swapped", "threeCerts", "bitflip", "caseDuplicate">>,   \* bitflip: one bit of the DER of a header certificate
  tcbMeta     |-> <<"ok", "wrongId", "wrongVersion", "noLevels", "levelsOmitted", "memberMissing">>,
  qeSignerDoc |-> <<"ok", "pkiB", "wrongRole", "rootDirect", "selfSigned", "lookalikeSameSerial", "pkiBSameSki", "ekuOther">>,
  sharedSigner |-> <<"distinct", "shared", "sameKey">>,   \* sameKey: the signing certificate was re-issued (same key and subject, another serial), one issue per document;   \* one signing certificate (byte-identical issuer chains) for both documents, as Intel does
  qeOver      |-> <<"member", "wholeBody", "reencoded">>,
  qeAlter     |-> <<"none", "memberBit", "sigBit", "sigMissing", "sigNull", "sigEmpty">>,
  qeExtra     |-> <<"none", "dupBefore", "dupAfter", "caseBefore", "caseAfter", "foldAfter">>,
  qeHdr       |-> <<"ok", "missing", "duplicated", "empty", "swapped", "threeCerts", "bitflip", "caseDuplicate">>,
  qeMeta      |-> <<"ok", "wrongId", "wrongVersion", "noLevels", "levelsOmitted", "memberMissing">>,
  \* signed content (C04, C07; refined in TcbLevels.tla)
  tcbContent |-> <<"ok", "laterMatch", "laterMatchTdx", "laterMatchPce", "fmspcUpper", "fmspc", "pceid", "mrsigner", "attrs",
                   "outOfDate", "revoked", "swHardening", "configNeeded", "noLevel",
                   "attrsShort", "attrsEmpty", "attrsLong", "mrsignerShort">>,     \* lengths: a mask / value that does not span the quote's field
  modBranch  |-> <<"none", "modOk", "modOutOfDate", "modMissing", "modNoLevel", "modOmitted", "modDecoyIds", "modDupId">>,
  qeContent  |-> <<"ok", "laterMatch", "maskedDiff", "maskZero", "valueOutsideMask", "misc", "miscHigh", "attrs", "mrsigner", "prodid",
                   "outOfDate", "revoked", "swHardening", "noLevel",
                   "attrsShort", "attrsEmpty", "attrsLong", "miscShort", "mrsignerShort", "attrsBothHalvesLE", "attrsBothHalvesBE">>,
  \* revocation (C05)
  pckCrlRev     |-> <<"none", "nearMiss", "many", "leaf", "leafFirst", "leafAmongMany", "interSerial">>,   \* interSerial: lists the number the platform CA certificate carries (harmless)
  rootCrlRev    |-> <<"none", "nearMiss", "inter", "tcbSigner", "qeSigner", "tcbSignerReason8", "qeSignerReason8", "leafSerial">>,
                    \* *Reason8: the entry states reason removeFromCRL (a listed serial is revoked whatever the entry says); leafSerial: harmless coincidence
  pckCrlSigner  |-> <<"inter", "root", "rootNamedInter", "foreignNamed", "otherPki", "foreignWithHeader">>,
  rootCrlSigner |-> <<"root", "inter", "interNamedRoot", "foreignNamed">>,
  crlChain      |-> <<"distinct", "shared">>,  \* shared: the PCK CRL response carries the very certificates of the quote's chain as its issuer chain (as Intel serves it)
  crlShape      |-> <<"std", "noNumber">>,     \* both CRLs without a cRLNumber extension: still the issuer's signed list of revoked serials
  pckCrlFetch   |-> <<"ok", "error", "garbage", "otherIssuer", "hdrMissing">>,
  rootCrlDps    |-> <<"ok", "errorThenOk", "garbageThenOk", "none", "error", "garbage", "errorError", "malformedThenOk">>,
  \* time (C06): artefact_position; the governing clock is on the named side of the artefact's
  \* expiry (or 1 s before its notBefore), the other four clocks on the opposite side.
  time |-> <<"none", "spread",          \* spread: five pairwise distinct clocks, all inside every validity window (honest)
    "leaf_before", "leaf_at", "leaf_after", "leaf_preNB",
    "inter_before", "inter_at", "inter_after", "inter_preNB",
    "root_before", "root_at", "root_after",
    "tcbNext_before", "tcbNext_at", "tcbNext_after",
    "tcbSigner_before", "tcbSigner_at", "tcbSigner_after", "tcbSigner_preNB",
    "tcbRoot_before", "tcbRoot_at", "tcbRoot_after",
    "qeNext_before", "qeNext_at", "qeNext_after",
    "qeSigner_before", "qeSigner_at", "qeSigner_after", "qeSigner_preNB",
    "qeRoot_before", "qeRoot_at", "qeRoot_after",
    "pckCrlNext_before", "pckCrlNext_at", "pckCrlNext_after",
    "pckCrlSigner_before", "pckCrlSigner_at", "pckCrlSigner_after",
    "pckCrlRoot_before", "pckCrlRoot_at", "pckCrlRoot_after",
    "rootCrlNext_before", "rootCrlNext_at", "rootCrlNext_after">>
]

DimNames == DOMAIN Dims
Baseline == [d \in DimNames |-> Dims[d][1]]
Range(s) == {s[i] : i \in DOMAIN s}

Override(base, ds) ==   \* all worlds that differ from base exactly on the dimensions ds
  LET Choices == [ds -> UNION {Range(Dims[d]) : d \in ds}]
  IN  {[d \in DimNames |-> IF d \in ds THEN c[d] ELSE base[d]] :
          c \in {c \in Choices : \A d \in ds : c[d] \in Range(Dims[d]) /\ c[d] # base[d]}}

Singles == UNION {Override(Baseline, {d}) : d \in DimNames}
Pairs(F) == UNION {UNION {Override(Baseline, {d, e}) : e \in F \ {d}} : d \in F}
PairsX(F) == UNION {UNION {Override(Baseline, {d, e}) : e \in DimNames \ {d}} : d \in F}

Worlds ==
  {Baseline} \cup (IF K >= 1 THEN Singles ELSE {}) \cup Pairs(Focus)
             \cup (IF K >= 2 THEN PairsX(DimNames) ELSE {})

(* Option settings.  level 0 = signatures and chain only; 1 = + collateral; 2 = + revocation;  *)
(* "conflict" = revocation without collateral.  now: explicit time set or wall clock.          *)
Levels == { [gc |-> FALSE, cr |-> FALSE], [gc |-> TRUE, cr |-> FALSE], [gc |-> TRUE, cr |-> TRUE] }
Conflict == [gc |-> FALSE, cr |-> TRUE]
OptBase == IF OptSet = "levels" THEN Levels ELSE Levels \cup {Conflict}
Opts == { [gc |-> b.gc, cr |-> b.cr, now |-> n, entry |-> e] :
            b \in OptBase, n \in NowVals, e \in {"raw", "msg"} }
\* the wall clock cannot realise a time fault
Realisable(w, o) == /\ (o.now = "unset" => w.time = "none")
                    /\ (w.msgWide # "none" => o.entry = "msg")   \* bytes cannot carry such a value
                    /\ (w.rotVia # "pool" => w.pool # "empty")   \* a root-of-trust message cannot say "trust nothing"
                    /\ (w.src = "intel" => /\ o.now = "set"                       \* judged at its reference time
                                           /\ \A d \in DimNames \ {"src", "pool", "rotVia"} : w[d] = Baseline[d])

(* ---------------------------------------------------------------------------------- *)
(* Helpers over a world.                                                                 *)

Home(w)  == IF w.src = "intel" THEN "I" ELSE w.leafPki      \* the PKI that issued the leaf and the honest collateral
InPool(p, w) == \/ (p = "A" /\ w.pool \in {"A", "AB", "AI"})
                \/ (p = "B" /\ w.pool \in {"B", "AB"})
                \/ (p = "I" /\ w.pool = "nil")             \* no pool given: the embedded Intel root, and only it
IssuedByInter(w) == w.leafRole \in {"pck", "wrongCN", "cnUpper", "cnSpace", "cnKelvin"}

\* time dimension
TimeArt(w) == IF w.time \in {"none", "spread"} THEN "none"
              ELSE CHOOSE a \in {"leaf","inter","root","tcbNext","tcbSigner","tcbRoot","qeNext","qeSigner","qeRoot",
                                 "pckCrlNext","pckCrlSigner","pckCrlRoot","rootCrlNext"} :
                     \E p \in {"before","at","after","preNB"} : w.time = a \o "_" \o p
TimePos(w) == IF w.time \in {"none", "spread"} THEN "none"
              ELSE CHOOSE p \in {"before","at","after","preNB"} : w.time = TimeArt(w) \o "_" \o p
\* C06's table: which TimeSet entry judges which artefact
Gov == [leaf |-> "PckCertChain", inter |-> "PckCertChain", root |-> "PckCertChain",
        tcbNext |-> "TcbInfo", tcbSigner |-> "TcbInfo", tcbRoot |-> "TcbInfo",
        qeNext |-> "QeIdentity", qeSigner |-> "QeIdentity", qeRoot |-> "QeIdentity",
        pckCrlNext |-> "PckCrl", pckCrlSigner |-> "PckCrl", pckCrlRoot |-> "PckCrl",
        rootCrlNext |-> "RootCaCrl"]
\* artefact a is outside its validity at its governing clock
\* With one shared issuer chain the same certificates are the tcb* and the qe* artefacts (signer and header root): when the time dimension
\* puts its expiry E between the two clocks (governing clock before/at E, hence the other clock after E) it is expired at the other clock.
SignerTwin(a) == CASE a = "qeSigner" -> "tcbSigner" [] a = "tcbSigner" -> "qeSigner"
                   [] a = "qeRoot" -> "tcbRoot" [] a = "tcbRoot" -> "qeRoot" [] OTHER -> "none"
\* likewise the quote's intermediate / root and the PCK CRL's issuer chain, when they are the same certificates
CrlShared(w) == w.crlChain = "shared" /\ w.src = "gen" /\ w.interPki = w.leafPki /\ w.rootPki = w.leafPki /\ w.interSlot = "inter"
CrlTwin(a) == CASE a = "inter" -> "pckCrlSigner" [] a = "pckCrlSigner" -> "inter" [] a = "root" -> "pckCrlRoot" [] a = "pckCrlRoot" -> "root" [] OTHER -> "none"
Expired(w, a)  == \/ (TimeArt(w) = a /\ TimePos(w) = "after")
                  \/ (CrlShared(w) /\ CrlTwin(a) # "none" /\ TimeArt(w) = CrlTwin(a) /\ TimePos(w) \in {"before", "at"})
                  \/ (w.sharedSigner = "shared" /\ SignerTwin(a) # "none" /\ TimeArt(w) = SignerTwin(a) /\ TimePos(w) \in {"before", "at"})
NotYet(w, a)   == TimeArt(w) = a /\ TimePos(w) = "preNB"
\* which artefacts an option level needs at all
Needs(o, a) == CASE a \in {"leaf","inter","root"} -> TRUE
                 [] a \in {"tcbNext","tcbSigner","tcbRoot","qeNext","qeSigner","qeRoot"} -> o.gc
                 [] OTHER -> o.gc /\ o.cr

LeafListed(w) == w.pckCrlRev \in {"leaf", "leafFirst", "leafAmongMany"}
DpsFirstSuccess(w) == w.rootCrlDps \in {"ok", "errorThenOk", "garbageThenOk", "malformedThenOk"}
DpSeq(w) == CASE w.rootCrlDps = "ok" -> <<"ok">>
              [] w.rootCrlDps \in {"errorThenOk", "malformedThenOk"} -> <<"error", "ok">>
              [] w.rootCrlDps = "garbageThenOk" -> <<"garbage", "ok">>
              [] w.rootCrlDps = "none" -> <<>>
              [] w.rootCrlDps = "error" -> <<"error">>
              [] w.rootCrlDps = "garbage" -> <<"garbage">>
              [] w.rootCrlDps = "errorError" -> <<"error", "error">>

\* (the TCB Info recorded in the repository does not contain a level matching the sample quote's platform: "no matching TCB level")
GoodTcb(w) == w.tcbContent \in {"ok", "laterMatch", "laterMatchTdx", "laterMatchPce", "fmspcUpper"} /\ w.modBranch \in {"none", "modOk", "modDecoyIds"} /\ w.src = "gen"
GoodQe(w)  == w.qeContent \in {"ok", "laterMatch", "maskedDiff", "maskZero"}

(* ---------------------------------------------------------------------------------- *)
(* The properties, declaratively: what an acceptance implies (soundness), which worlds  *)
(* must be accepted (completeness), which requests may be made.                         *)

\* C01: every link of the signature chain
N01(w, o) == /\ w.qsig = "ok" /\ w.ak = "ok" /\ w.mut = "none" /\ w.msgWide = "none"
             /\ w.bind = "ok" /\ w.qeSigner = "leaf"

\* C02: leaf is a PCK-role certificate that chains through the carried intermediate to the pool
N02(w, o) == /\ w.leafRole = "pck" /\ w.interSlot = "inter"
             /\ w.rotVia \notin {"fileEmpty", "inlineNonPem"}        \* an unusable root-of-trust configuration trusts nothing
             /\ (w.src = "gen" => w.interPki = Home(w))
             /\ InPool(Home(w), w)

\* C03: collateral authentic, per document; values are those of the signed member
DocOk(w, s, ov, al, h, m) ==
             /\ \/ (w[s] = "ok" /\ InPool(Home(w), w))                                   \* signer certified by a trusted root for that role:
                \/ (w[s] \in {"pkiB", "pkiBSameSki"} /\ InPool(IF Home(w) = "A" THEN "B" ELSE "A", w))      \* the look-alike PKI's signer counts iff that PKI is trusted too
             /\ w[ov] = "member" /\ w[al] = "none"
             /\ w[h] \in {"ok", "duplicated", "caseDuplicate"}
             /\ w[m] = "ok"
N03(w, o) == o.gc => /\ DocOk(w, "tcbSigner", "tcbOver", "tcbAlter", "tcbHdr", "tcbMeta")
                     /\ DocOk(w, "qeSignerDoc", "qeOver", "qeAlter", "qeHdr", "qeMeta")
                     /\ GoodTcb(w) /\ GoodQe(w)      \* the *signed* values decide, whatever unsigned siblings say

\* C04 / C07: content of the signed documents
N04(w, o) == o.gc => GoodTcb(w)
\* (the ISVSVN and ISVPRODID that are compared with the identity must be the ones the PCK key signed, not wider values of a message)
N07(w, o) == o.gc => GoodQe(w) /\ w.msgWide \notin {"isvSvn", "isvSvnPlus65536", "isvProdId"}

\* C05: revocation
N05(w, o) == o.cr => /\ o.gc
                     /\ w.pckCrlFetch \in {"ok", "hdrMissing"} /\ DpsFirstSuccess(w)
                     /\ w.pckCrlSigner = "inter" /\ w.rootCrlSigner = "root"
                     /\ ~LeafListed(w)
                     /\ w.rootCrlRev \in {"none", "nearMiss", "leafSerial"}

\* C06: nothing that the option level needs is outside its validity at its own clock
Arts == DOMAIN Gov
N06(w, o) == \A a \in Arts : Needs(o, a) => ~Expired(w, a) /\ ~NotYet(w, a)

Necessary(w, o) == N01(w, o) /\ N02(w, o) /\ N03(w, o) /\ N04(w, o) /\ N05(w, o) /\ N06(w, o) /\ N07(w, o)

\* C11: the honest worlds (baseline and its honest variants) must be accepted
Honest(w, o) ==
  /\ N01(w, o) /\ w.leafExtCritical = "no"
  /\ w.leafRole = "pck" /\ w.interSlot = "inter" /\ InPool(Home(w), w) /\ w.rotVia \in {"pool", "files", "inline", "mixed"}
  /\ (w.src = "gen" => w.interPki = Home(w) /\ w.rootPki = Home(w))
  /\ w.nBlocks = "n3" /\ w.trailer \in {"none", "nul"} /\ w.pemType = "cert" /\ w.interCN = "platform"
  /\ ~(o.cr /\ ~o.gc)
  /\ o.gc => /\ \A d \in {"tcbSigner", "qeSignerDoc"} : w[d] = "ok"
             /\ w.tcbOver = "member" /\ w.qeOver = "member" /\ w.tcbAlter = "none" /\ w.qeAlter = "none"
             /\ w.tcbExtra = "none" /\ w.qeExtra = "none" /\ w.tcbHdr \in {"ok", "caseDuplicate"} /\ w.qeHdr \in {"ok", "caseDuplicate"}
             /\ w.tcbMeta = "ok" /\ w.qeMeta = "ok" /\ GoodTcb(w) /\ GoodQe(w)
  /\ o.cr => /\ w.pckCrlFetch = "ok" /\ DpsFirstSuccess(w)
             /\ w.pckCrlSigner = "inter" /\ w.rootCrlSigner = "root"
             /\ ~LeafListed(w) /\ w.rootCrlRev \in {"none", "nearMiss", "leafSerial"}
  /\ \A a \in Arts : Needs(o, a) => ~Expired(w, a) /\ ~NotYet(w, a)

\* C12: which requests an option setting permits (fs = sequence of [kind, ok] records)
CrlKinds == {"pckcrl", "rootcrl"}
\* ("other": a Root CA CRL distribution point taken from a response header that was altered in transit; the statement does not
\* restrict which URL that is, only that CRL endpoints are contacted with revocation checking on)
Gating(o, fs) == /\ ~o.gc => fs = <<>>
                 /\ \A i \in DOMAIN fs : /\ fs[i].kind \in {"tcb", "qe", "pckcrl", "rootcrl", "other"}
                                         /\ (fs[i].kind \in {"tcb", "pckcrl"} => fs[i].ok)       \* names the quote's FMSPC / issuing CA
                                         /\ fs[i].kind \in (CrlKinds \cup {"other"}) => o.cr

(* ---------------------------------------------------------------------------------- *)
(* The pipeline as coded.  StageResult gives the outcome of each stage: "ok", "fail",    *)
(* or "either" where an unlogged detail of the realisation decides (e.g. which header    *)
(* bit was flipped).  Modelled deviations from the properties are marked DEV.            *)

Stages == <<"rot", "check", "extract", "ca", "fetchTcb", "fetchQe", "fetchPckCrl", "fetchRootCrl",
            "chain", "collateral", "tcbinfo", "qeidentity", "quote">>

HdrParses(h) == h \in {"ok", "swapped", "caseDuplicate"}      \* headerToIssuerChain: exactly one value, two PEM blocks, nothing after
\* verifyResponse: issuer chain shape + x509 path + body signature (+ CRL section)
\* (the unsigned sibling of the *Extra dimensions carries the honest content but is never byte-identical to the signed member)
ResponseOk(w, o, s, ov, al, ex, h, revoked) ==
  /\ w[h] \in {"ok", "caseDuplicate"}          \* swapped: the "root" is the signer: name check fails; caseDuplicate: only the canonical spelling is read
  /\ w[s] \in {"ok", "pkiB", "pkiBSameSki"}    \* wrongRole/rootDirect: signer CN; selfSigned: not issued by the root
  /\ (w[s] = "ok" => InPool(Home(w), w))
  /\ (w[s] \in {"pkiB", "pkiBSameSki"} => InPool(IF Home(w) = "A" THEN "B" ELSE "A", w))
  /\ w[ov] = "member" /\ w[al] = "none"
  /\ w[ex] # "dupAfter"                        \* the exact-key member that is signature-checked is then the unsigned sibling
  /\ (o.cr => /\ w.rootCrlSigner = "root" /\ (w.src = "gen" => w.rootPki = Home(w)) /\ w[s] = "ok"
              /\ w.rootCrlRev \notin {revoked, revoked \o "Reason8"})

StageResult(st, w, o) ==
  CASE st = "rot" ->                                         \* RootOfTrustToOptions refuses bundles without certificates
         IF w.rotVia \in {"fileEmpty", "inlineNonPem"} THEN "fail" ELSE "ok"
    [] st = "check" ->
         IF w.msgWide # "none" THEN "fail"                  \* CheckQuoteV4: every numeric field must fit its wire width
         ELSE IF w.mut = "header" THEN "either" ELSE "ok"   \* a header bit may hit version / key type / TEE type
    [] st = "extract" ->
         IF w.nBlocks = "n3" /\ w.trailer \in {"none", "nul"} /\ w.pemType = "cert" THEN "ok" ELSE "fail"
    [] st = "ca" ->                                          \* issuing CA from the leaf's issuer name, needed for the CRL URL
         IF ~o.gc THEN "skip" ELSE IF IssuedByInter(w) THEN "ok" ELSE "fail"
    [] st = "fetchTcb" ->
         IF ~o.gc THEN "skip"
         ELSE IF (~HdrParses(w.tcbHdr) /\ w.tcbHdr # "bitflip") \/ (w.tcbMeta = "memberMissing" /\ w.tcbExtra \notin {"dupBefore", "dupAfter"}) THEN "fail"
         ELSE IF w.tcbAlter = "memberBit" \/ w.tcbHdr = "bitflip" THEN "either"     \* the flipped bit may break the JSON / the certificate's DER     \* the flipped bit may break the JSON
         ELSE "ok"
    [] st = "fetchQe" ->
         IF ~o.gc THEN "skip"
         ELSE IF (~HdrParses(w.qeHdr) /\ w.qeHdr # "bitflip") \/ (w.qeMeta = "memberMissing" /\ w.qeExtra \notin {"dupBefore", "dupAfter"}) THEN "fail"
         ELSE IF w.qeAlter = "memberBit" \/ w.qeHdr = "bitflip" THEN "either"
         ELSE "ok"
    [] st = "fetchPckCrl" ->
         IF ~(o.gc /\ o.cr) THEN "skip"
         ELSE IF w.pckCrlFetch \in {"error", "garbage", "hdrMissing"} THEN "fail" ELSE "ok"
    [] st = "fetchRootCrl" ->
         IF ~(o.gc /\ o.cr) THEN "skip"
         ELSE IF DpsFirstSuccess(w) THEN "ok" ELSE "fail"
    [] st = "chain" ->
         IF /\ w.interCN = "platform"                        \* DEV: a Processor-CA chain is rejected here
            /\ w.interSlot = "inter"                         \* the certificate in the intermediate position must be named Platform CA
            /\ w.interPki = w.rootPki                        \* intermediate signed by the *embedded* root (DEV: stricter than C02)
            /\ w.leafRole = "pck" /\ w.leafPki = w.interPki /\ w.leafExtCritical = "no"
            /\ InPool(Home(w), w)                            \* x509 path to the pool; nil pool = Intel's root, never a generated one
            /\ ~NotYet(w, "leaf") /\ ~NotYet(w, "inter") /\ ~Expired(w, "leaf") /\ ~Expired(w, "inter")
            /\ (o.cr => /\ o.gc
                        /\ w.rootCrlSigner = "root"
                        /\ w.pckCrlSigner = "inter" /\ w.pckCrlFetch # "otherIssuer"
                        /\ w.rootCrlRev # "inter" /\ ~LeafListed(w))
            /\ ~Expired(w, "root")
         THEN "ok" ELSE "fail"
    [] st = "collateral" ->
         IF ~o.gc THEN "skip"
         ELSE IF \E a \in {"tcbNext", "qeNext", "tcbSigner", "tcbRoot", "qeRoot", "qeSigner"} : Expired(w, a) THEN "fail"
         ELSE IF o.cr /\ \E a \in {"rootCrlNext", "pckCrlNext", "pckCrlSigner", "pckCrlRoot"} : Expired(w, a) THEN "fail"
         ELSE "ok"
    [] st = "tcbinfo" ->
         IF ~o.gc THEN "skip"
         ELSE IF /\ w.tcbMeta = "ok"
                 /\ ResponseOk(w, o, "tcbSigner", "tcbOver", "tcbAlter", "tcbExtra", "tcbHdr", "tcbSigner")
                 /\ ~NotYet(w, "tcbSigner") /\ ~Expired(w, "tcbSigner")
              THEN "ok" ELSE "fail"
    [] st = "qeidentity" ->
         IF ~o.gc THEN "skip"
         ELSE IF /\ w.qeMeta = "ok"
                 /\ ResponseOk(w, o, "qeSignerDoc", "qeOver", "qeAlter", "qeExtra", "qeHdr", "qeSigner")
                 /\ ~NotYet(w, "qeSigner") /\ ~Expired(w, "qeSigner")
              THEN "ok" ELSE "fail"
    [] st = "quote" ->
         IF /\ N01(w, o)
            /\ (o.gc => GoodTcb(w) /\ GoodQe(w))             \* values of the signed member (after the F6/F8 repairs)
         THEN "ok" ELSE "fail"

\* The verdict of the pipeline as a function: first stage that is not ok/skip decides.
RECURSIVE Walk(_, _, _)
Walk(i, w, o) == IF i > Len(Stages) THEN "accept"
                 ELSE LET r == StageResult(Stages[i], w, o)
                      IN IF r \in {"ok", "skip"} THEN Walk(i + 1, w, o)
                         ELSE IF r = "fail" THEN "reject"
                         ELSE \* either: continuing must still end in reject; checked by EitherIsReject
                              "reject"
CodeVerdict(w, o) == Walk(1, w, o)

\* the requests the pipeline makes
FetchesOf(w, o) ==
  LET tcb == IF o.gc THEN <<[kind |-> "tcb", ok |-> TRUE]>> ELSE <<>>
      qe  == IF o.gc /\ StageResult("fetchTcb", w, o) # "fail" THEN <<[kind |-> "qe", ok |-> TRUE]>> ELSE <<>>
  IN tcb \o qe

(* ---------------------------------------------------------------------------------- *)
(* The step machine.                                                                     *)

VARIABLES w, o, pc, verdict, fetches, dp
vars == <<w, o, pc, verdict, fetches, dp>>

Init == /\ w \in Worlds /\ o \in Opts /\ Realisable(w, o)
        /\ pc = 1 /\ verdict = "none" /\ fetches = <<>> /\ dp = 1

Running == verdict = "none" /\ pc <= Len(Stages)
Cur == Stages[pc]

Advance == pc' = pc + 1 /\ UNCHANGED <<w, o, verdict, dp>>
Reject  == verdict' = "reject" /\ UNCHANGED <<w, o, pc, dp>>

\* a non-fetching stage
Plain(st) == /\ Running /\ Cur = st
             /\ LET r == StageResult(st, w, o)
                IN \/ r \in {"ok", "skip"} /\ Advance
                   \/ r = "fail" /\ Reject
                   \/ r = "either" /\ (Advance \/ Reject)
             /\ UNCHANGED fetches

\* a stage that performs exactly one request when not skipped
Fetch1(st, kind) ==
             /\ Running /\ Cur = st
             /\ LET r == StageResult(st, w, o)
                IN /\ fetches' = IF r = "skip" THEN fetches ELSE Append(fetches, [kind |-> kind, ok |-> TRUE])
                   /\ \/ r \in {"ok", "skip"} /\ Advance
                      \/ r = "fail" /\ Reject
                      \/ r = "either" /\ (Advance \/ Reject)

\* the distribution-point loop: one request per point until one yields a parsable CRL
FetchRootCrl ==
             /\ Running /\ Cur = "fetchRootCrl"
             /\ IF StageResult("fetchRootCrl", w, o) = "skip" THEN Advance /\ UNCHANGED fetches
                ELSE IF dp > Len(DpSeq(w)) THEN Reject /\ UNCHANGED fetches        \* no point left (or none at all)
                ELSE /\ fetches' = Append(fetches, [kind |-> "rootcrl", ok |-> TRUE])
                     /\ IF DpSeq(w)[dp] = "ok" THEN pc' = pc + 1 /\ UNCHANGED <<w, o, verdict, dp>>
                        ELSE dp' = dp + 1 /\ UNCHANGED <<w, o, pc, verdict>>

RootOfTrust     == Plain("rot")
CheckQuote      == Plain("check")
ExtractChain    == Plain("extract")
ExtractCa       == Plain("ca")
FetchTcbInfo    == Fetch1("fetchTcb", "tcb")
FetchQeIdentity == Fetch1("fetchQe", "qe")
FetchPckCrl     == Fetch1("fetchPckCrl", "pckcrl")
VerifyChain     == Plain("chain")
VerifyCollateral == Plain("collateral")
VerifyTcbInfo   == Plain("tcbinfo")
VerifyQeIdentity == Plain("qeidentity")
VerifyQuote     == Plain("quote")
Accept == /\ verdict = "none" /\ pc = Len(Stages) + 1
          /\ verdict' = "accept" /\ UNCHANGED <<w, o, pc, fetches, dp>>

Next == \/ RootOfTrust \/ CheckQuote \/ ExtractChain \/ ExtractCa \/ FetchTcbInfo \/ FetchQeIdentity \/ FetchPckCrl \/ FetchRootCrl
        \/ VerifyChain \/ VerifyCollateral \/ VerifyTcbInfo \/ VerifyQeIdentity \/ VerifyQuote \/ Accept

Spec == Init /\ [][Next]_vars

Done == verdict # "none"

(* ---------------------------------------------------------------------------------- *)
(* What TLC checks on the model.                                                         *)

TypeOK == /\ verdict \in {"none", "accept", "reject"} /\ pc \in 1..(Len(Stages) + 1)

Sound_C01 == verdict = "accept" => N01(w, o)
Sound_C02 == verdict = "accept" => N02(w, o)
Sound_C03 == verdict = "accept" => N03(w, o)
Sound_C04 == verdict = "accept" => N04(w, o)
Sound_C05 == verdict = "accept" => N05(w, o)
Sound_C06 == verdict = "accept" => N06(w, o)
Sound_C07 == verdict = "accept" => N07(w, o)
Complete_C11 == (Done /\ Honest(w, o)) => verdict = "accept"
Gating_C12 == Gating(o, fetches)
\* more checking never accepts more (over the pipeline function, for the world of this state)
L(g, c) == [gc |-> g, cr |-> c, now |-> o.now, entry |-> o.entry]
\* (a statement about the world alone: evaluated once per behaviour, in its initial state)
Monotone_C12 == pc = 1 =>
                /\ CodeVerdict(w, L(TRUE, TRUE)) = "accept" => CodeVerdict(w, L(TRUE, FALSE)) = "accept"
                /\ CodeVerdict(w, L(TRUE, FALSE)) = "accept" => CodeVerdict(w, L(FALSE, FALSE)) = "accept"
                /\ CodeVerdict(w, L(FALSE, TRUE)) = "reject"
\* the step machine and the function agree ("either" branches all end in reject)
MachineIsFunction == Done => verdict = CodeVerdict(w, o)
\* once expired, rejected at every later time (C06, second sentence): moving the governing clock from
\* "after" further on is the same abstract world; moving it from before/at to after never helps
LaterNeverHelps == pc = 1 =>
  \A a \in Arts : LET later == [w EXCEPT !.time = a \o "_after"]
                  IN (TimeArt(w) = a /\ TimePos(w) \in {"before", "at"} /\ Needs(o, a))
                        => CodeVerdict(later, o) = "reject"
=================================================================================
