------------------------------ MODULE Policy_Trace ------------------------------
(* Recorded calls of validate.TdxQuote / RawTdxQuote (options built directly, or obtained from *)
(* validate.PolicyToOptions) must end the way Policy says: refused conversion exactly for      *)
(* malformed messages, otherwise success exactly when the quote meets every expectation.       *)
(* The internal order of the checks is not logged (silent steps); a panic matches nothing.     *)
EXTENDS Policy, Json

CONSTANTS TraceFile
Trace == ndJsonDeserialize(TraceFile)
VARIABLES l
tvars == <<vars, l>>
Mark(k) == TLCSet(42, IF TLCGet(42) > k THEN TLCGet(42) ELSE k)
IsEvent(e) == l <= Len(Trace) /\ Trace[l].ev = e /\ l' = l + 1

TInit == /\ c = Baseline /\ mode = "options" /\ pc = 1 /\ errs = 0 /\ result = "idle" /\ l = 1 /\ TLCSet(42, 1)
TCall == /\ IsEvent("Call") /\ result # "none"
         /\ c' = Trace[l].input.c /\ mode' = Trace[l].input.mode
         /\ pc' = 1 /\ errs' = 0 /\ result' = "none"
Silent == /\ l <= Len(Trace) /\ UNCHANGED l /\ Next
\* both entry points (message and raw bytes) must agree with the model
TReturn == /\ IsEvent("Return") /\ Done
           /\ \/ result = Trace[l].result
              \/ (Literal(c) = "either" /\ result # "refused" /\ Trace[l].result \in {"ok", "reject"})
              \* an explicitly empty expectation may be refused or converted; if converted the verdict is the literal one
              \/ (IsPolicy(mode) /\ ExplicitEmpty(c) /\ ~Malformed(c) /\ Trace[l].result \in {"refused", Literal(c)})
           /\ Trace[l].rawSame
           /\ result' = "returned" /\ UNCHANGED <<c, mode, pc, errs>>
TNext == (TCall \/ Silent \/ TReturn) /\ Mark(l')
TSpec == TInit /\ [][TNext]_tvars
TraceAccepted == PrintT(<<"HWM", TLCGet(42)>>) /\ TLCGet(42) = Len(Trace) + 1
=================================================================================
