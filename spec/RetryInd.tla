------------------------------- MODULE RetryInd -------------------------------
(* Unbounded-parameter companion of Retry.tla for Apalache: the delay invariant of the retry loop is inductive for *)
(* every Timeout >= 0, Max >= 0, Init2 >= 0 and every attempt duration, i.e. not only for the grid TLC explores.   *)
EXTENDS Integers

CONSTANTS
  \* @type: Int;
  Timeout,
  \* @type: Int;
  Max,
  \* @type: Int;
  Init2,
  \* @type: Int;
  DurMax,
  \* @type: Int;
  Fails

VARIABLES
  \* @type: Int;
  now,
  \* @type: Int;
  delay,
  \* @type: Int;
  n,
  \* @type: Str;
  phase,
  \* @type: Int;
  waitFrom,
  \* @type: Str;
  result,
  \* @type: Int;
  lastWait

ConstInit == /\ Timeout \in Nat /\ Max \in Nat /\ Init2 \in Nat /\ DurMax \in Nat /\ Fails \in Int /\ Fails >= -1

Min(a, b) == IF a < b THEN a ELSE b
MaxOf(a, b) == IF a > b THEN a ELSE b
NextDelay(d) == Min(2 * d, Max)
AttemptFails(i) == Fails = -1 \/ i <= Fails

Init == now = 0 /\ delay = Init2 /\ n = 0 /\ phase = "ready" /\ waitFrom = 0 /\ result = "none" /\ lastWait = 0

StartAttempt == /\ phase = "ready" /\ n' = n + 1 /\ phase' = "inflight"
                /\ UNCHANGED <<now, delay, waitFrom, result, lastWait>>
Finish == \E d \in 0..DurMax :
            /\ phase = "inflight" /\ now' = now + d
            /\ IF AttemptFails(n)
                 THEN delay' = NextDelay(delay) /\ phase' = "waiting" /\ waitFrom' = now' /\ UNCHANGED result
                 ELSE result' = "ok" /\ phase' = "done" /\ UNCHANGED <<delay, waitFrom>>
            /\ UNCHANGED <<n, lastWait>>
TimerFires == /\ phase = "waiting" /\ waitFrom + delay <= Timeout
              /\ now' = MaxOf(now, waitFrom + delay) /\ phase' = "ready" /\ lastWait' = delay
              /\ UNCHANGED <<delay, n, waitFrom, result>>
TimerFiresLate == /\ phase = "waiting" /\ waitFrom + delay > Timeout /\ delay = 0
                  /\ phase' = "ready" /\ lastWait' = 0 /\ UNCHANGED <<now, delay, n, waitFrom, result>>
DeadlineFires == /\ phase = "waiting" /\ waitFrom + delay >= Timeout
                 /\ now' = MaxOf(now, Timeout) /\ result' = "error" /\ phase' = "done"
                 /\ UNCHANGED <<delay, n, waitFrom, lastWait>>
Next == StartAttempt \/ Finish \/ TimerFires \/ TimerFiresLate \/ DeadlineFires

\* the inductive invariant: every wait that has been taken was at most Max; once a failure has been seen the delay is capped;
\* success is only ever returned for attempt Fails + 1; an error only at or after the deadline
IndInv == /\ phase \in {"ready", "inflight", "waiting", "done"}
          /\ result \in {"none", "ok", "error"}
          /\ n >= 0 /\ now >= 0 /\ waitFrom >= 0 /\ delay >= 0
          /\ lastWait >= 0 /\ lastWait <= Max
          /\ (phase = "waiting" => delay <= Max)
          /\ (n >= 2 => delay <= Max)
          /\ (n = 1 /\ phase \in {"ready"} => delay <= Max)
          /\ (result = "ok" => Fails >= 0 /\ n = Fails + 1)
          /\ (Fails >= 0 => (n <= Fails + 1))
          /\ (phase = "ready" /\ n >= 1 => AttemptFails(n))
          /\ (phase = "waiting" => AttemptFails(n))
          /\ (result = "error" => now >= Timeout)
          /\ (result # "none" <=> phase = "done")
          /\ (phase = "inflight" => n >= 1)
          /\ (phase = "waiting" => n >= 1)
IndInit == /\ now \in Int /\ delay \in Int /\ n \in Int /\ phase \in {"ready", "inflight", "waiting", "done"} /\ waitFrom \in Int
           /\ result \in {"none", "ok", "error"} /\ lastWait \in Int /\ IndInv
=============================================================================
