--------------------------------- MODULE AttestTool ---------------------------------
(***************************************************************************************)
(* tools/attest: the guest-side command line around client.GetRawQuote / GetQuote (not   *)
(* one of the listed properties).                                                        *)
(*   ParseFlags -> ParseInput -> CheckOutform -> OpenOutput -> GetQuote -> Write         *)
(* -in is the REPORT_DATA: empty (all zero), or at most 64 bytes in hex or base64;       *)
(* -inform auto tries base64 first and hex second.  The output file is created only once *)
(* the input and -outform have been accepted; any failure exits with status 1 after one  *)
(* FATAL line.  In the test environment there is no TDX device and no configfs-tsm, so   *)
(* the quote step fails: what is specified (and bound to the real binary) is which stage *)
(* a run reaches, and what it leaves behind.                                             *)
(***************************************************************************************)
EXTENDS Integers, Sequences, TLC

Ins == {"empty", "hex64", "hex5", "hex4", "hex65", "hexOdd", "hexSpaced", "b64of64", "b64of10", "b64of65", "notEncoded", "notUtf8"}
\*   hex64: 128 hex digits;  hex5: ten hex digits (padded with zeros);  hex4: eight hex digits, which are also well-formed base64 (of six bytes);  hex65: one byte too many;  hexOdd: an odd number of digits;
\*   hexSpaced: hex64 with surrounding white space (trimmed);  b64ofN: base64 of N bytes;  notEncoded: neither;  notUtf8: bytes that are no text
Informs == {"auto", "hex", "base64", "bogus"}
Outforms == {"bin", "textproto", "bogus"}
Outs == {"stdout", "file", "dirMissing"}
Flags == {"plain", "verbose", "positional", "unknownFlag", "badValue"}
\*   verbose: -v -verbosity=2;  positional: a stray argument after the flags (ignored);  unknownFlag: a flag nobody defined;  badValue: -verbosity=lots.
\*   The last two are refused by the flag package before the tool looks at anything: usage text, exit status 2.

IsHex(i) == i \in {"hex64", "hex5", "hex4", "hexSpaced"}
IsB64(i) == i \in {"b64of64", "b64of10", "hex4"}
\* the input is accepted under the given -inform.  Hex digits are base64 letters too: 128 of them decode, as base64, to 96 bytes (too many:
\* auto falls through to hex), ten are no multiple of four (not base64), eight are base64 of six bytes -- so "auto" reads hex4 as base64 and
\* the REPORT_DATA differs from what -inform=hex makes of the same string (as coded and as documented: base64 is tried first).
InputAccepted(i, f) == \/ i = "empty"                                   \* nothing given: all-zero REPORT_DATA, whatever -inform says
                       \/ (f = "hex" /\ IsHex(i))
                       \/ (f = "base64" /\ IsB64(i))
                       \/ (f = "auto" /\ (IsHex(i) \/ IsB64(i)))

VARIABLES in, inform, outform, out, flags, pc, exit, created
vars == <<in, inform, outform, out, flags, pc, exit, created>>
Init == /\ in \in Ins /\ inform \in Informs /\ outform \in Outforms /\ out \in Outs /\ flags \in Flags
        /\ pc = "flags" /\ exit = -1 /\ created = FALSE
Die == exit' = 1 /\ pc' = "done"
FlagsRefused == flags \in {"unknownFlag", "badValue"}
ParseFlags   == /\ pc = "flags" /\ (IF FlagsRefused THEN exit' = 2 /\ pc' = "done" ELSE pc' = "parse" /\ exit' = exit) /\ UNCHANGED <<in, inform, outform, out, flags, created>>
ParseInput   == /\ pc = "parse" /\ (IF InputAccepted(in, inform) THEN pc' = "outform" /\ exit' = exit ELSE Die) /\ UNCHANGED <<in, inform, outform, out, flags, created>>
CheckOutform == /\ pc = "outform" /\ (IF outform # "bogus" THEN pc' = "open" /\ exit' = exit ELSE Die) /\ UNCHANGED <<in, inform, outform, out, flags, created>>
OpenOutput   == /\ pc = "open"
                /\ IF out = "dirMissing" THEN Die /\ created' = created
                   ELSE pc' = "quote" /\ exit' = exit /\ created' = (out = "file")
                /\ UNCHANGED <<in, inform, outform, out, flags>>
GetQuote     == /\ pc = "quote" /\ Die /\ UNCHANGED <<in, inform, outform, out, flags, created>>      \* no device, no configfs-tsm here
Next == ParseFlags \/ ParseInput \/ CheckOutform \/ OpenOutput \/ GetQuote
Spec == Init /\ [][Next]_vars

Done == pc = "done"
TypeOK == exit \in {-1, 1, 2} /\ (exit = 2 <=> (Done /\ FlagsRefused))
\* a run that is refused for its arguments leaves nothing behind
NothingCreatedOnUsageError == (Done /\ (FlagsRefused \/ ~InputAccepted(in, inform) \/ outform = "bogus")) => ~created
CreatedOnlyForFile == created => out = "file"
=================================================================================
