----------------------------------- MODULE Ccel -----------------------------------
(***************************************************************************************)
(* rtmr.ParseCcelWithTdQuote (C18): the firmware log state is returned only behind the   *)
(* verification gate, the policy gate, and a replay of the event log that reproduces the *)
(* quote's value of every RTMR the log has events for.                                   *)
(*   VerifyGate -> PolicyGate -> ExtractBank -> Replay -> Return(state | error)          *)
(***************************************************************************************)
EXTENDS Naturals, Sequences, FiniteSets, TLC

CONSTANTS Measured       \* RTMR indices the event log has events for (the sample log: {0, 1, 2})

VFaults == {"none", "qsigOtherKey", "poolB", "wrongCN", "bindWrongHash", "qeSignerForeign", "revokedLeaf", "intelNilPool", "intelEmptyPool"}
\*   intel*: the genuine sample quote (Intel's chain) with no pool given (the embedded Intel root applies) / with an empty pool (nothing is trusted)
Logs == {"sample", "empty", "nil", "withRtmr3"}     \* the event log handed in: the sample log, zero bytes, nil, the sample log plus an event measured into RTMR3
MeasuredBy(lgv) == IF lgv = "withRtmr3" THEN Measured \cup {3} ELSE Measured
Policies == {"ok", "nonceDiffers", "mrTdDiffers", "rtmrExpectDiffers", "minQeAbove", "minTeeLaterAbove"}
\*   minTeeLaterAbove: the TEE_TCB_SVN minimum is below the quote in an earlier component and above it in a later one
Priors == {"none", "sameOpts"}   \* sameOpts: the same options value served a successful call on the genuine quote just before
Flips == {"none", "r0", "r1", "r2", "r3"}       \* one bit of that register changed in an otherwise valid, correctly re-signed quote
Levels == {0, 1, 2}
Loaders == {"grub", "unsupported"}                \* extract.Opts.Loader: GRUB (TdxDefaultOpts) or the zero value
CrlFetches == {"ok", "pckCrlFails", "rootCrlFails"}   \* outcome of the CRL downloads (only requested at level 2)

RegOf(f) == CASE f = "r0" -> 0 [] f = "r1" -> 1 [] f = "r2" -> 2 [] f = "r3" -> 3 [] OTHER -> 9
VerifyOk(v, lvl, cf) == /\ (v \in {"none", "intelNilPool"} \/ (v = "revokedLeaf" /\ lvl < 2))      \* a revoked leaf is only visible with revocation checking
                        /\ (lvl = 2 => cf = "ok")                                \* an unavailable CRL fails verification: no "fail open"
PolicyOk(p) == p = "ok"
ReplayOk(f, lgv) == f = "none" \/ RegOf(f) \notin MeasuredBy(lgv)

\* C18
MayReturnState(v, p, f, lvl, cf, lgv) == VerifyOk(v, lvl, cf) /\ PolicyOk(p) /\ ReplayOk(f, lgv)     \* whatever the loader option

VARIABLES v, p, f, lvl, ld, cf, prior, lg, pc, result
vars == <<v, p, f, lvl, ld, cf, prior, lg, pc, result>>
Init == /\ v \in VFaults /\ p \in Policies /\ f \in Flips /\ lvl \in Levels /\ ld \in Loaders /\ cf \in CrlFetches
        /\ prior \in Priors /\ lg \in Logs /\ (lg \in {"empty", "nil"} => f = "none") /\ (lg # "sample" => cf = "ok" /\ prior = "none")
        /\ (v \in {"intelNilPool", "intelEmptyPool"} => lvl = 0 /\ f = "none" /\ cf = "ok" /\ prior = "none" /\ lg # "withRtmr3")     \* no collateral for the sample platform offline; its registers cannot be altered without re-signing
        /\ (cf # "ok" => lvl = 2) /\ pc = (IF prior = "none" THEN "verify" ELSE "prior") /\ result = "none"
\* the earlier call leaves nothing behind in the options value: each call extracts its own register bank
PriorCall == pc = "prior" /\ pc' = "verify" /\ UNCHANGED <<v, p, f, lvl, ld, cf, prior, lg, result>>
Fail == result' = "error" /\ pc' = "done"
VerifyGate == /\ pc = "verify" /\ (IF VerifyOk(v, lvl, cf) THEN pc' = "policy" /\ result' = result ELSE Fail) /\ UNCHANGED <<v, p, f, lvl, ld, cf, prior, lg>>
PolicyGate == /\ pc = "policy" /\ (IF PolicyOk(p) THEN pc' = "bank" /\ result' = result ELSE Fail) /\ UNCHANGED <<v, p, f, lvl, ld, cf, prior, lg>>
ExtractBank == /\ pc = "bank" /\ pc' = "replay" /\ UNCHANGED <<v, p, f, lvl, ld, cf, prior, lg, result>>     \* RTMR i -> register i, all four registers
\* without events there is nothing to replay: what the extraction then returns (a state, an error, or both) is the event-log library's business,
\* but it happens behind both gates like everything else
Replay == /\ pc = "replay" /\ (IF lg \in {"empty", "nil"} THEN result' \in {"state", "error", "both"} /\ pc' = "done"
                               ELSE IF ReplayOk(f, lg) THEN result' = "state" /\ pc' = "done" ELSE Fail) /\ UNCHANGED <<v, p, f, lvl, ld, cf, prior, lg>>
Next == PriorCall \/ VerifyGate \/ PolicyGate \/ ExtractBank \/ Replay
Spec == Init /\ [][Next]_vars

TypeOK == result \in {"none", "state", "error", "both"}
StateOnlyBehindBothGates == result \in {"state", "both"} => MayReturnState(v, p, f, lvl, cf, lg)
ErrorOtherwise == (pc = "done" /\ lg \in {"sample", "withRtmr3"}) => (result = "state" <=> MayReturnState(v, p, f, lvl, cf, lg))
=================================================================================
