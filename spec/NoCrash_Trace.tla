------------------------------ MODULE NoCrash_Trace ------------------------------
(* C10's judge for recorded calls of any entry point on any enumerated untrusted input: every call   *)
(* must have returned a result or an error.  A Return event lists the entry points that panicked or  *)
(* hung ("crashed"), or carries a single result.  Two-state machine: idle -> called -> idle.         *)
EXTENDS Naturals, Sequences, TLC, Json
CONSTANTS TraceFile
Trace == ndJsonDeserialize(TraceFile)
VARIABLES l, st
Mark(k) == TLCSet(42, IF TLCGet(42) > k THEN TLCGet(42) ELSE k)
IsEvent(ev) == l <= Len(Trace) /\ Trace[l].ev = ev /\ l' = l + 1
TInit == l = 1 /\ st = "idle" /\ TLCSet(42, 1)
TCall == IsEvent("Call") /\ st = "idle" /\ st' = "called"
TOther == l <= Len(Trace) /\ Trace[l].ev \notin {"Call", "Return"} /\ l' = l + 1 /\ st' = st
Returned(e) == IF "crashed" \in DOMAIN e THEN e.crashed = <<>>
               ELSE IF "result" \in DOMAIN e THEN e.result \notin {"panic", "timeout", "hang"}
               ELSE IF "verdict" \in DOMAIN e THEN e.verdict \notin {"panic", "timeout", "hang"}
               ELSE FALSE
TReturn == IsEvent("Return") /\ st = "called" /\ Returned(Trace[l]) /\ st' = "idle"
TNext == (TCall \/ TOther \/ TReturn) /\ Mark(l')
TSpec == TInit /\ [][TNext]_<<l, st>>
TraceAccepted == PrintT(<<"HWM", TLCGet(42)>>) /\ TLCGet(42) = Len(Trace) + 1
=================================================================================
