--------------------------------- MODULE CheckTool ---------------------------------
(***************************************************************************************)
(* tools/check (C19): flags and config are merged per field (a flag, when given,         *)
(* overrides the config; an unset flag leaves the config's value), the quote is read in  *)
(* one of three formats, verified under the effective root of trust and options, and     *)
(* validated against the effective policy.  Exit codes: 0 success, 1 tool usage /        *)
(* malformed flags or config, 2 verification failure, 3 collateral / CRL download        *)
(* failure, 4 policy mismatch.  Stages as coded:                                         *)
(*   ParseFlags -> ParseConfig -> Merge -> Conflict -> ReadQuote -> RootOfTrust ->       *)
(*   Verify -> Convert -> Validate -> Exit                                               *)
(***************************************************************************************)
EXTENDS Integers, Sequences, FiniteSets, TLC

Fields == {"qe_vendor_id", "mr_seam", "td_attributes", "xfam", "mr_td", "mr_config_id", "mr_owner", "mr_owner_config", "report_data",
           "minimum_tee_tcb_svn", "rtmrs", "minimum_qe_svn", "minimum_pce_svn"}
Vals == {"absent", "match", "mismatch", "malformed"}      \* per source (config file / flag)

\* configuration file shapes and formats
Shapes == {"full", "none", "emptyFile", "policyEmpty", "noPolicy", "noRootOfTrust"}
\*   none: no -config at all;  policyEmpty: `policy {}` without sub-policies;  noPolicy / noRootOfTrust: that sub-message absent
Formats == {"textproto", "binary"}
Quotes == {"valid", "forged", "unparsable", "empty"}
Informs == {"bin", "proto", "textproto", "bogus"}
Roots == {"flagGood", "configGood", "inlineGood", "flagWrong", "configWrong", "flagMissingFile", "noneGiven", "flagOverridesWrongConfig", "flagWrongOverridesGoodConfig"}
\*   the quote is rooted in a generated PKI: it verifies only under a bundle listing that PKI's root
Nets == {"off", "unreachable", "honest", "serverError", "tampered", "tcbFails", "qeFails", "pckCrlFails", "rootCrlFails"}
\*   xFails: only that one download gets an HTTP 503, the others are served honestly (the CRL ones need revocation checking on)
\*   off: collateral not requested;  unreachable: requested, nothing answers;  honest / serverError (HTTP 503) / tampered (bad signature)
Crl == {"off", "on", "onWithoutCollateral"}
AnyVals == {"absent", "match", "mismatch"}   \* td_quote_body_policy.any_mr_td of the config file (there is no flag for it): absent / contains the quote's MR_TD / does not
Retries == {"short", "zeroDelay", "negativeDelay", "zeroTimeout", "negativeTimeout"}   \* -timeout / -max_retry_delay as given on the command line
Presents == {"plain", "quiet", "verbose", "stdin"}
\*   how the run is presented: -quiet (nothing is written to stdout or stderr), -verbosity=2, or the quote on standard input (-in=-);
\*   none of them takes part in the exit code

Case == [field : Fields, cfg : Vals, flag : Vals, shape : Shapes, fmt : Formats, quote : Quotes, inform : Informs, roots : Roots, net : Nets, crl : Crl, present : Presents, cfgAny : AnyVals, retry : Retries]
Base == [field |-> "mr_td", cfg |-> "absent", flag |-> "absent", shape |-> "full", fmt |-> "textproto", quote |-> "valid", inform |-> "bin",
         roots |-> "flagGood", net |-> "off", crl |-> "off", present |-> "plain", cfgAny |-> "absent", retry |-> "short"]

\* which values a shape lets the config carry
CfgEffective(c) == IF c.shape \in {"none", "emptyFile", "policyEmpty", "noPolicy"} THEN "absent" ELSE c.cfg
\* flag when given, config otherwise
Effective(c) == IF c.flag # "absent" THEN c.flag ELSE CfgEffective(c)

\* the faults present in a case, by exit class
UsageFault(c) == \/ c.flag = "malformed"                                  \* flags are parsed at start-up
                 \/ c.inform = "bogus"
                 \/ c.roots = "flagMissingFile"
                 \/ c.crl = "onWithoutCollateral"
                 \/ (c.quote = "unparsable" /\ c.inform \in {"proto", "textproto"})
ConvertFault(c) == Effective(c) = "malformed"                             \* PolicyToOptions refuses it: tool usage (after verification)
RootsOk(c) == c.roots \in {"flagGood", "configGood", "inlineGood", "flagOverridesWrongConfig"}
ConfigRootsUsable(c) == c.shape \in {"full", "policyEmpty", "noPolicy"}
EffRootsOk(c) == RootsOk(c) /\ (c.roots \in {"configGood", "inlineGood"} => ConfigRootsUsable(c))
VerifyFault(c) == \/ c.quote \in {"forged", "empty"}
                  \/ (c.quote = "unparsable" /\ c.inform = "bin")          \* README: quote parsing errors are verification failures (the tool says 1; both accepted)
                  \/ ~EffRootsOk(c)
                  \/ (c.net = "tampered")
NetworkFault(c) == \/ c.net \in {"unreachable", "serverError", "tcbFails", "qeFails"}
                   \/ (c.net \in {"pckCrlFails", "rootCrlFails"} /\ c.crl = "on")
\* the config's allow-list stays in force whatever flags are given (a flag overrides the same field only)
AnyEffective(c) == IF c.shape \in {"none", "emptyFile", "policyEmpty", "noPolicy"} THEN "absent" ELSE c.cfgAny
PolicyFault(c) == Effective(c) = "mismatch" \/ AnyEffective(c) = "mismatch"

\* C19: the exit codes a run may end with.  Without faults exactly 0; with one fault exactly its code; with several, the code of any fault
\* present (the order of independent stages is not part of the property).
ExitSet(c) ==
  LET s == (IF UsageFault(c) \/ ConvertFault(c) THEN {1} ELSE {})
           \cup (IF VerifyFault(c) THEN {2} ELSE {})
           \cup (IF c.quote \in {"unparsable", "empty"} /\ c.inform = "bin" THEN {1} ELSE {})   \* an unparsable binary quote: the tool says 1, its README 2
           \cup (IF NetworkFault(c) THEN {3} ELSE {})
           \cup (IF PolicyFault(c) THEN {4} ELSE {})
  IN IF s = {} THEN {0} ELSE s

(* ------------------------------- the stages as coded --------------------------------- *)
Stages == <<"flags", "conflict", "readQuote", "rootOfTrust", "verify", "convert", "validate">>
StageExit(st, c) ==     \* 0 = passes this stage
  CASE st = "flags"       -> IF c.flag = "malformed" \/ c.roots = "flagMissingFile" THEN 1 ELSE 0
    [] st = "conflict"    -> IF c.crl = "onWithoutCollateral" THEN 1 ELSE 0
    [] st = "readQuote"   -> IF c.inform = "bogus" \/ c.quote = "unparsable" \/ (c.quote = "empty" /\ c.inform = "bin") THEN 1 ELSE 0
    [] st = "rootOfTrust" -> 0
    [] st = "verify"      -> IF c.quote \in {"forged", "empty"} \/ ~EffRootsOk(c) THEN 2
                             ELSE IF NetworkFault(c) THEN 3 ELSE IF c.net = "tampered" THEN 2 ELSE 0
    [] st = "convert"     -> IF ConvertFault(c) THEN 1 ELSE 0
    [] st = "validate"    -> IF PolicyFault(c) THEN 4 ELSE 0

CONSTANT Budget   \* 1: single deviations from Base; 2: also pairs (field deviation x one other dimension)

FieldDevs == {[Base EXCEPT !.field = f, !.cfg = a, !.flag = b] : f \in Fields, a \in Vals, b \in Vals}
OtherDevs == {[Base EXCEPT !.shape = x] : x \in Shapes} \cup {[Base EXCEPT !.fmt = x] : x \in Formats} \cup {[Base EXCEPT !.quote = x] : x \in Quotes}
             \cup {[Base EXCEPT !.inform = x] : x \in Informs} \cup {[Base EXCEPT !.roots = x] : x \in Roots}
             \cup {[Base EXCEPT !.net = x] : x \in Nets} \cup {[Base EXCEPT !.net = x, !.crl = "on"] : x \in {"pckCrlFails", "rootCrlFails", "tcbFails"}} \cup {[Base EXCEPT !.crl = x, !.net = (IF x = "on" THEN "honest" ELSE "off")] : x \in Crl}
             \cup {[Base EXCEPT !.quote = q, !.inform = i] : q \in Quotes, i \in {"bin", "proto", "textproto"}}
             \cup {[Base EXCEPT !.cfgAny = a, !.flag = f, !.cfg = g] : a \in AnyVals, f \in {"absent", "match"}, g \in {"absent", "match"}}
             \cup {[Base EXCEPT !.retry = r, !.net = n] : r \in Retries, n \in {"off", "unreachable", "honest", "serverError"}}
             \cup {[Base EXCEPT !.present = x] : x \in Presents}
             \cup {[Base EXCEPT !.present = x, !.quote = q] : x \in Presents, q \in {"forged", "unparsable"}}      \* one failure of every exit class, however presented
             \cup {[Base EXCEPT !.present = x, !.net = "unreachable"] : x \in Presents}
             \cup {[Base EXCEPT !.present = x, !.flag = v] : x \in Presents, v \in {"mismatch", "malformed"}}
Merge2(a, b) == [k \in DOMAIN Base |-> IF b[k] # Base[k] THEN b[k] ELSE a[k]]
Cases == FieldDevs \cup OtherDevs \cup (IF Budget >= 2 THEN {Merge2(a, b) : a \in {x \in FieldDevs : x.cfg # "absent" \/ x.flag # "absent"}, b \in OtherDevs} ELSE {})
\* combinations that cannot be realised
Realisable(c) == /\ (c.crl = "on" => c.net # "off")
                 /\ (c.shape \in {"none", "emptyFile"} => c.roots \notin {"configGood", "inlineGood", "configWrong", "flagOverridesWrongConfig", "flagWrongOverridesGoodConfig"})
                 /\ (c.shape = "noRootOfTrust" => c.roots \notin {"configGood", "inlineGood", "configWrong", "flagOverridesWrongConfig", "flagWrongOverridesGoodConfig"})

VARIABLES c, pc, exit
vars == <<c, pc, exit>>
Init == c \in {x \in Cases : Realisable(x)} /\ pc = 1 /\ exit = -1
Stage == /\ exit = -1 /\ pc <= Len(Stages)
         /\ LET e == StageExit(Stages[pc], c) IN IF e = 0 THEN pc' = pc + 1 /\ exit' = exit ELSE exit' = e /\ pc' = pc
         /\ UNCHANGED c
Succeed == exit = -1 /\ pc = Len(Stages) + 1 /\ exit' = 0 /\ UNCHANGED <<c, pc>>
Next == Stage \/ Succeed
Spec == Init /\ [][Next]_vars

TypeOK == exit \in {-1, 0, 1, 2, 3, 4}
ExitIsTruthful == exit # -1 => exit \in ExitSet(c)
ZeroOnlyWhenAllHolds == exit = 0 => ~UsageFault(c) /\ ~ConvertFault(c) /\ ~VerifyFault(c) /\ ~NetworkFault(c) /\ ~PolicyFault(c)
FlagOverridesConfig == exit = 0 => Effective(c) \in {"absent", "match"} /\ AnyEffective(c) # "mismatch"
=================================================================================
