-------------------------------- MODULE SharedQuote --------------------------------
(***************************************************************************************)
(* Memory discipline of parsing, checking and serialising a quote (C16).                 *)
(* Cells: the raw input buffer; for every byte slice reachable from the quote message    *)
(* its live part [0,len) and its spare capacity [len,cap); the option byte strings.      *)
(* Every API call is a sequence of steps; a step reads or writes one class of cells;     *)
(* writes to call-local memory are not modelled.  Up to N calls run concurrently with    *)
(* no synchronisation between them (each has its own options), interleaved arbitrarily.  *)
(***************************************************************************************)
EXTENDS Naturals, Sequences, FiniteSets, TLC

CONSTANTS N            \* number of concurrent calls

Cells == {"raw", "live", "spare", "opts"}
Shared == Cells                                    \* all of these belong to the caller
Kinds == {"verify", "validate", "serialise", "extract", "parse"}

\* steps of each call kind, as coded after the F10 repair ("r" read, "w" write).  Before it, verify's binding check
\* appended the QE auth data to the attestation-key slice: a write to spare whenever cap > len.
Steps(k) ==
  CASE k = "verify"    -> <<[op |-> "r", cell |-> "live"], [op |-> "r", cell |-> "opts"], [op |-> "r", cell |-> "live"]>>
    [] k = "validate"  -> <<[op |-> "r", cell |-> "live"], [op |-> "r", cell |-> "opts"]>>
    [] k = "serialise" -> <<[op |-> "r", cell |-> "live"]>>
    [] k = "extract"   -> <<[op |-> "r", cell |-> "live"]>>
    [] k = "parse"     -> <<[op |-> "r", cell |-> "raw"]>>          \* the result is built from copies (clone)

VARIABLES kinds,      \* kind of each call
          pcs,        \* program counter of each call
          version,    \* per cell: number of writes so far
          seen,       \* per call: the cell versions it observed
          writers     \* per cell: set of calls that wrote it
vars == <<kinds, pcs, version, seen, writers>>
Calls == 1..N

Init == /\ kinds \in [Calls -> Kinds]
        /\ pcs = [c \in Calls |-> 1]
        /\ version = [x \in Cells |-> 0]
        /\ seen = [c \in Calls |-> {}]
        /\ writers = [x \in Cells |-> {}]

Step(c) == /\ pcs[c] <= Len(Steps(kinds[c]))
           /\ LET s == Steps(kinds[c])[pcs[c]] IN
                IF s.op = "r" THEN /\ seen' = [seen EXCEPT ![c] = @ \cup {<<s.cell, version[s.cell]>>}]
                                   /\ UNCHANGED <<version, writers>>
                ELSE /\ version' = [version EXCEPT ![s.cell] = @ + 1]
                     /\ writers' = [writers EXCEPT ![s.cell] = @ \cup {c}]
                     /\ UNCHANGED seen
           /\ pcs' = [pcs EXCEPT ![c] = @ + 1]
           /\ UNCHANGED kinds
Next == \E c \in Calls : Step(c)
Spec == Init /\ [][Next]_vars

\* C16 on the model
NoSharedWrite == \A x \in Shared : writers[x] = {}
\* a data race: two different calls access one cell, at least one of them writing, with nothing ordering them
Accesses(c) == {<<Steps(kinds[c])[i].cell, Steps(kinds[c])[i].op>> : i \in 1..Len(Steps(kinds[c]))}
Race == \E a, b \in Calls : a # b /\ \E x \in Cells : <<x, "w">> \in Accesses(a) /\ (<<x, "r">> \in Accesses(b) \/ <<x, "w">> \in Accesses(b))
NoRace == ~Race
\* every call observes the memory it would observe alone: hence the same verdict
SameAsAlone == \A c \in Calls : \A p \in seen[c] : p[2] = 0
\* the footprint of one call kind on caller-owned memory (what the deterministic snapshot compares)
Footprint(k) == {Steps(k)[i].cell : i \in {j \in 1..Len(Steps(k)) : Steps(k)[j].op = "w"}}
EmptyFootprints == \A k \in Kinds : Footprint(k) = {}
=================================================================================
