------------------------------ MODULE VerifyIsolation ------------------------------
(***************************************************************************************)
(* Concurrent verifications do not see each other (C01 for calls that overlap in time;   *)
(* C16 states the same for the shared *quote*; here the callers share nothing).          *)
(* Each call works in three steps on state of its own: it serialises the signed region   *)
(* of *its* input into *its* buffer, hashes that buffer, and compares the signature.     *)
(* TLC explores every interleaving of the steps of N calls; because no step reads        *)
(* another call's buffer, the verdict of a call is the verdict of its own input.  A      *)
(* buffer shared between calls (one process-wide scratch) would break exactly this: the  *)
(* variant Shared = TRUE is the counter-model, and TLC finds the interleaving.           *)
(***************************************************************************************)
EXTENDS Naturals, FiniteSets, TLC

CONSTANTS Calls,        \* set of concurrent calls, e.g. {1, 2, 3}
          Shared        \* FALSE: every call has its own buffer (the library); TRUE: one scratch buffer for all (counter-model)

Inputs == {"genuine", "tampered"}
VARIABLES input,   \* call -> what it was handed
          buf,     \* buffer -> whose input it currently holds ("none" before)
          digest,  \* call -> the input its digest was computed over
          pc, verdict
vars == <<input, buf, digest, pc, verdict>>

BufOf(c) == IF Shared THEN 0 ELSE c
Bufs == IF Shared THEN {0} ELSE Calls

Init == /\ input \in [Calls -> Inputs]
        /\ buf = [b \in Bufs |-> "none"] /\ digest = [c \in Calls |-> "none"]
        /\ pc = [c \in Calls |-> "serialise"] /\ verdict = [c \in Calls |-> "none"]
Serialise(c) == /\ pc[c] = "serialise" /\ buf' = [buf EXCEPT ![BufOf(c)] = input[c]]
                /\ pc' = [pc EXCEPT ![c] = "hash"] /\ UNCHANGED <<input, digest, verdict>>
Hash(c) == /\ pc[c] = "hash" /\ digest' = [digest EXCEPT ![c] = buf[BufOf(c)]]
           /\ pc' = [pc EXCEPT ![c] = "compare"] /\ UNCHANGED <<input, buf, verdict>>
\* the signature is the genuine quote's: it matches the digest of the genuine signed region only
Compare(c) == /\ pc[c] = "compare"
              /\ verdict' = [verdict EXCEPT ![c] = IF digest[c] = "genuine" THEN "accept" ELSE "reject"]
              /\ pc' = [pc EXCEPT ![c] = "done"] /\ UNCHANGED <<input, buf, digest>>
Next == \E c \in Calls : Serialise(c) \/ Hash(c) \/ Compare(c)
Spec == Init /\ [][Next]_vars

TypeOK == verdict \in [Calls -> {"none", "accept", "reject"}]
VerdictIsOwn == \A c \in Calls : pc[c] = "done" => verdict[c] = (IF input[c] = "genuine" THEN "accept" ELSE "reject")
=================================================================================
