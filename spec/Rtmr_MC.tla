-------------------------------- MODULE Rtmr_MC --------------------------------
EXTENDS Rtmr, Json
IndicesQuick    == {-1, 0, 1, 2, 3, 4, 5, 2147483647}
IndicesThorough == {-1, 0, 1, 3, 4, 2147483647}
\* one case per complete history
ExportCase == (pc = "idle" /\ calls = MaxCalls) => PrintT(<<"CASE", ToJson([init |-> init, hist |-> hist])>>)
=================================================================================
