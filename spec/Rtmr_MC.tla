-------------------------------- MODULE Rtmr_MC --------------------------------
EXTENDS Rtmr, Json
\* in range: 0..3; just outside: -1, 4, 5; values that alias a valid index when narrowed to 8 / 16 bits or negated; extremes
IndicesQuick    == {-1, 0, 1, 2, 3, 4, 5, 256, 258, 65537, -254, 2147483647, -2147483647}
IndicesThorough == {-1, 0, 1, 3, 4, 257, 65536, -253, 2147483647}
\* one case per complete history
ExportCase == (pc = "idle" /\ calls = MaxCalls) => PrintT(<<"CASE", ToJson([init |-> init, hist |-> hist])>>)
=================================================================================
