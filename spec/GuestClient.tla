------------------------------- MODULE GuestClient -------------------------------
(***************************************************************************************)
(* client.GetRawQuote / GetQuote of go-tdx-guest against a guest device or a quote      *)
(* provider (C15).  The device and the provider are the environment: their behaviour    *)
(* is one record chosen in Init.  One action per step of the protocol:                  *)
(*   SendReport  - report ioctl carrying the caller's 64 bytes                          *)
(*   SendQuote   - quote ioctl carrying the 1024-byte TD report the device returned     *)
(*   Return      - data = first OutLen bytes of the device buffer, or an error          *)
(* Provider path: IsSupported, then GetRawQuote verbatim, or fall back to the device    *)
(* path (OpenDevice on the configured path).                                            *)
(***************************************************************************************)
EXTENDS Naturals, Sequences, TLC

ResCodes  == {"err", "r0", "r1", "r7", "r8", "r9", "rWide", "rTop"}
\*   request error, TdxAttestSuccess, Unexpected, NotSupported, QuoteFailure, Busy; rWide = 2^32 and rTop = 2^63: non-zero codes whose low 32 bits are zero
ReqLens   == {"kept", "raised", "zeroed"}    \* what the device does to the Length field of the quote request it was handed (an in/out length idiom)
Statuses  == {"s0", "inflight", "error", "unavailable", "other"}
OutLens   == {"zero", "one", "exact", "buf", "bufPlus1", "max", "unwritten"}   \* 0, 1, len(quote), buffer size, buffer size + 1, 2^32 - 1; unwritten: the device leaves the field as the client sent it (0)
Buffers   == {"quote", "untouched"}                       \* device wrote a quote / left the TD report in place
Devices   == [rr : ResCodes, qr : ResCodes, st : Statuses, ol : OutLens, buf : Buffers, len : ReqLens]
Providers == {"bytes", "error", "both", "empty", "unsupportedNoDevice", "unsupportedFileDevice"}
Vias      == {"device", "provider"}
Priors    == {"none", "good", "provSupported", "provUnsupported"}
\*   good: a successful GetRawQuote through a device took place just before, in the same process;
\*   provSupported / provUnsupported: an earlier call went through another quote provider that said it is supported / not supported

OutLenValid(ol) == ol \in {"one", "exact", "buf"}

\* C15, declaratively: the only device behaviour that yields data
DeviceYieldsData(d) == d.rr = "r0" /\ d.qr = "r0" /\ d.st = "s0" /\ OutLenValid(d.ol)

VARIABLES via, dev, prov, prior, pc, ioctls, opened, result
vars == <<via, dev, prov, prior, pc, ioctls, opened, result>>

GoodDevice == [rr |-> "r0", qr |-> "r0", st |-> "s0", ol |-> "exact", buf |-> "quote", len |-> "kept"]

Init == /\ via \in Vias
        /\ dev \in Devices
        /\ prov \in Providers
        /\ (via = "device" => prov = "bytes")              \* irrelevant dimension pinned
        /\ (via = "provider" => dev = GoodDevice)
        /\ prior \in Priors
        /\ pc = (IF prior # "none" THEN "prior" ELSE "start") /\ ioctls = <<>> /\ opened = FALSE /\ result = "none"

\* an earlier, successful call: it leaves nothing behind that the next call could see (each call builds its own request)
PriorCall == /\ pc = "prior" /\ pc' = "start"
             /\ UNCHANGED <<via, dev, prov, prior, ioctls, opened, result>>

\* --- device path
SendReport == /\ pc = "report"
              /\ ioctls' = Append(ioctls, "report")
              /\ pc' = IF dev.rr = "r0" THEN "quote" ELSE "fail"
              /\ UNCHANGED <<via, dev, prov, prior, opened, result>>
SendQuote  == /\ pc = "quote"
              /\ ioctls' = Append(ioctls, "quote")
              /\ pc' = IF dev.qr = "r0" /\ dev.st = "s0" /\ OutLenValid(dev.ol) THEN "data" ELSE "fail"
              /\ UNCHANGED <<via, dev, prov, prior, opened, result>>
ReturnData == /\ pc = "data" /\ result' = "data" /\ pc' = "done"
              /\ UNCHANGED <<via, dev, prov, prior, ioctls, opened>>
ReturnErr  == /\ pc = "fail" /\ result' = "error" /\ pc' = "done"
              /\ UNCHANGED <<via, dev, prov, prior, ioctls, opened>>
\* --- dispatch and provider path
Start == /\ pc = "start"
         /\ pc' = IF via = "device" THEN "report" ELSE "supported"
         /\ UNCHANGED <<via, dev, prov, prior, ioctls, opened, result>>
AskSupported == /\ pc = "supported"
                /\ pc' = IF prov \in {"unsupportedNoDevice", "unsupportedFileDevice"} THEN "fallback" ELSE "provider"
                /\ UNCHANGED <<via, dev, prov, prior, ioctls, opened, result>>
ProviderResult(p) == CASE p = "bytes" -> "data" [] p = "empty" -> "data" [] p = "error" -> "error" [] p = "both" -> "both"
ProviderQuote == /\ pc = "provider"
                 /\ result' = ProviderResult(prov)
                 /\ pc' = "done"
                 /\ UNCHANGED <<via, dev, prov, prior, ioctls, opened>>
Fallback == /\ pc = "fallback"
            /\ opened' = TRUE                          \* the device path is tried: the configured path is opened
            /\ result' = "error" /\ pc' = "done"       \* no TDX device in the test environment: open or ioctl fails
            /\ UNCHANGED <<via, dev, prov, prior, ioctls>>

Next == PriorCall \/ Start \/ SendReport \/ SendQuote \/ ReturnData \/ ReturnErr \/ AskSupported \/ ProviderQuote \/ Fallback
Spec == Init /\ [][Next]_vars

Done == pc = "done"

TypeOK == result \in {"none", "data", "error", "both"}
\* the property on the model
DataOnlyWhenDeviceGood == (Done /\ via = "device") => (result = "data" <=> DeviceYieldsData(dev))
ErrorOtherwise == (Done /\ via = "device" /\ ~DeviceYieldsData(dev)) => result = "error"
NoQuoteAfterFailedReport == (via = "device" /\ dev.rr # "r0") => ioctls \in {<<>>, <<"report">>}
ProtocolOrder == ioctls \in {<<>>, <<"report">>, <<"report", "quote">>}
ProviderVerbatim == (Done /\ via = "provider" /\ prov \in {"bytes", "empty", "error", "both"})
                        => ioctls = <<>> /\ ~opened /\ result = ProviderResult(prov)
FallbackTriesDevice == (Done /\ via = "provider" /\ prov \in {"unsupportedNoDevice", "unsupportedFileDevice"}) => opened /\ result = "error"
=================================================================================
