----------------------------- MODULE TdxVerify_Judge -----------------------------
(* Judge of recorded executions of the real verify.TdxQuote / RawTdxQuote against the      *)
(* declarative side of TdxVerify.  One trace file holds many calls (Call, Fetch*, Return); *)
(* every event must be consumed.  A Return is consumable only if the observed verdict and  *)
(* the observed requests satisfy the property selected by Prop for the logged world and    *)
(* option setting.  Nothing about the internal order of checks is bound here, so a         *)
(* refactoring that keeps the property cannot raise an alarm (strict conformance with the  *)
(* pipeline is TdxVerify_Trace's job).                                                     *)
EXTENDS TdxVerify, Json

CONSTANTS TraceFile, Prop

Trace == ndJsonDeserialize(TraceFile)

VARIABLES l,     \* next event
          acc,   \* verdicts of the current concrete world, keyed by <<now, entry, gc, cr>>
          cid    \* <<case id, realisation>> of the current concrete world
jvars == <<vars, l, acc, cid>>

IsEvent(e) == l <= Len(Trace) /\ Trace[l].ev = e /\ l' = l + 1

JInit == /\ w = Baseline /\ o = [gc |-> FALSE, cr |-> FALSE, now |-> "set", entry |-> "raw"]
         /\ pc = 1 /\ verdict = "done" /\ fetches = <<>> /\ dp = 1
         /\ l = 1 /\ acc = <<>> /\ cid = <<0, 0>>

JCall == /\ IsEvent("Call")
         /\ w' = Trace[l].w /\ o' = Trace[l].o
         /\ fetches' = <<>> /\ verdict' = "none"
         /\ cid' = <<Trace[l].case, IF "real" \in DOMAIN Trace[l] THEN Trace[l].real ELSE 0>>
         /\ acc' = IF cid' = cid THEN acc ELSE <<>>          \* verdicts are compared within one realisation of the world only
         /\ UNCHANGED <<pc, dp>>

JFetch == /\ IsEvent("Fetch") /\ verdict = "none"
          /\ fetches' = Append(fetches, [kind |-> Trace[l].kind, ok |-> Trace[l].ok])
          /\ UNCHANGED <<w, o, pc, verdict, dp, acc, cid>>

\* accept at a higher level with a recorded reject at a lower one (same realisation, same now/entry)
Lvl(x) == IF x.gc /\ x.cr THEN 2 ELSE IF x.gc THEN 1 ELSE IF x.cr THEN 3 ELSE 0
MonotoneObs(a) ==
  \A i \in DOMAIN a, j \in DOMAIN a :
     (a[i].now = a[j].now /\ a[i].entry = a[j].entry /\ a[i].lvl \in {1, 2} /\ a[j].lvl < a[i].lvl /\ a[i].v = "accept")
        => a[j].v = "accept"

Judge(v, a) ==
  /\ v \in {"accept", "reject"}              \* a panic or a hang is never acceptable
  /\ CASE Prop = "C01" -> (v = "accept" => N01(w, o))
       [] Prop = "C02" -> (v = "accept" => N02(w, o))
       [] Prop = "C03" -> (v = "accept" => N03(w, o))
       [] Prop = "C04" -> (v = "accept" => N04(w, o))
       [] Prop = "C05" -> (v = "accept" => N05(w, o))
       [] Prop = "C06" -> (v = "accept" => N06(w, o))
       [] Prop = "C07" -> (v = "accept" => N07(w, o))
       [] Prop = "C11" -> (Honest(w, o) => v = "accept")
       [] Prop = "C12" -> Gating(o, fetches) /\ MonotoneObs(a) /\ (Lvl(o) = 3 => v = "reject")
       [] Prop = "HIST" -> /\ (v = "accept" => Necessary(w, o)) /\ (Honest(w, o) => v = "accept") /\ Gating(o, fetches)
       [] Prop = "ALL" -> /\ (v = "accept" => Necessary(w, o)) /\ (Honest(w, o) => v = "accept")
                          /\ Gating(o, fetches) /\ MonotoneObs(a)

JReturn == /\ IsEvent("Return") /\ verdict = "none"
           /\ verdict' = Trace[l].verdict
           /\ acc' = Append(acc, [now |-> o.now, entry |-> o.entry, lvl |-> Lvl(o), v |-> Trace[l].verdict])
           /\ Judge(Trace[l].verdict, acc')
           /\ UNCHANGED <<w, o, pc, fetches, dp, cid>>

JNext == JCall \/ JFetch \/ JReturn
JSpec == JInit /\ [][JNext]_jvars

\* the trace is linear: one state per consumed event plus the initial state
TraceAccepted == TLCGet("stats").diameter - 1 = Len(Trace)
=================================================================================
