-------------------------------- MODULE Ccel_Trace --------------------------------
(* Recorded calls of rtmr.ParseCcelWithTdQuote on the sample CCEL log with quotes rebuilt and re-signed under a     *)
(* generated PKI.  The registers the log measures are computed by the harness from the log itself and must be the  *)
(* constant Measured of this run.  A state may come back only where Ccel allows it; a nil state must come with an  *)
(* error and a state with none.                                                                                    *)
EXTENDS Ccel, Json
CONSTANTS TraceFile
Trace == ndJsonDeserialize(TraceFile)
VARIABLES l
tvars == <<vars, l>>
Mark(k) == TLCSet(42, IF TLCGet(42) > k THEN TLCGet(42) ELSE k)
IsEvent(ev) == l <= Len(Trace) /\ Trace[l].ev = ev /\ l' = l + 1
TInit == v = "none" /\ p = "ok" /\ f = "none" /\ lvl = 0 /\ ld = "grub" /\ cf = "ok" /\ prior = "none" /\ lg = "sample" /\ pc = "done" /\ result = "idle" /\ l = 1 /\ TLCSet(42, 1)
TCall == /\ IsEvent("Call") /\ pc = "done"
         /\ {Trace[l].measured[i] : i \in DOMAIN Trace[l].measured} = MeasuredBy(Trace[l].input.lg)
         /\ v' = Trace[l].input.v /\ p' = Trace[l].input.p /\ f' = Trace[l].input.f /\ lvl' = Trace[l].input.lvl
         /\ ld' = Trace[l].input.ld /\ cf' = Trace[l].input.cf
         /\ prior' = Trace[l].input.prior /\ lg' = Trace[l].input.lg
         /\ pc' = (IF Trace[l].input.prior = "none" THEN "verify" ELSE "prior") /\ result' = "none"
\* the earlier call on the genuine quote returned a state
TPrior == IsEvent("Prior") /\ PriorCall /\ Trace[l].result = "state"
Silent == /\ l <= Len(Trace) /\ UNCHANGED l /\ (VerifyGate \/ PolicyGate \/ ExtractBank \/ Replay)
TReturn == /\ IsEvent("Return") /\ pc = "done" /\ result \in {"state", "error", "both"}
           /\ Trace[l].result = result                         \* "state" | "error"; "both" / "neither" / "panic" match nothing
           /\ result' = "returned" /\ UNCHANGED <<v, p, f, lvl, ld, cf, prior, lg, pc>>
TNext == (TCall \/ TPrior \/ Silent \/ TReturn) /\ Mark(l')
TSpec == TInit /\ [][TNext]_tvars
TraceAccepted == PrintT(<<"HWM", TLCGet(42)>>) /\ TLCGet(42) = Len(Trace) + 1
=================================================================================
