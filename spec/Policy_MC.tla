------------------------------- MODULE Policy_MC -------------------------------
EXTENDS Policy, Json
ExportCase == (pc = 1 /\ result = "none") => PrintT(<<"CASE", ToJson([c |-> c, mode |-> mode])>>)
=================================================================================
