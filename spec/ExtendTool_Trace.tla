----------------------------- MODULE ExtendTool_Trace -----------------------------
(* Recorded runs of the real tools/extend binary (built from the tree under test): exit status, what it wrote to stderr / stdout, and *)
(* which stage its message belongs to.                                                                                                *)
EXTENDS ExtendTool, Json
CONSTANTS TraceFile
Trace == ndJsonDeserialize(TraceFile)
VARIABLES l
tvars == <<vars, l>>
Mark(k) == TLCSet(42, IF TLCGet(42) > k THEN TLCGet(42) ELSE k)
IsEvent(ev) == l <= Len(Trace) /\ Trace[l].ev = ev /\ l' = l + 1
TInit == /\ in = "file" /\ index = "default" /\ quiet = FALSE /\ verbosity = "default" /\ tsm = "absent" /\ pc = "done" /\ exit = 1 /\ said = "fatal"
         /\ l = 1 /\ TLCSet(42, 1)
TCall == /\ IsEvent("Call") /\ pc = "done"
         /\ in' = Trace[l].input.in /\ index' = Trace[l].input.index /\ quiet' = Trace[l].input.quiet /\ verbosity' = Trace[l].input.verbosity
         /\ tsm' = (IF Trace[l].tsmPresent THEN "present" ELSE "absent")
         /\ pc' = "flags" /\ exit' = -1 /\ said' = "nothing"
Silent == /\ l <= Len(Trace) /\ UNCHANGED l /\ Next
TReturn == /\ IsEvent("Return") /\ pc = "done" /\ exit \in {0, 1, 2}
           /\ Trace[l].exit = exit /\ ~Trace[l].crash
           /\ Trace[l].said = said
           /\ Trace[l].stdoutLines = StdoutLines
           /\ (said = "fatal" => Trace[l].stage = EndStage)
           /\ exit' = 3 /\ UNCHANGED <<in, index, quiet, verbosity, tsm, pc, said>>
TNext == (TCall \/ Silent \/ TReturn) /\ Mark(l')
TSpec == TInit /\ [][TNext]_tvars
TraceAccepted == PrintT(<<"HWM", TLCGet(42)>>) /\ TLCGet(42) = Len(Trace) + 1
=================================================================================
