---------------------------------- MODULE HttpsGet ----------------------------------
(***************************************************************************************)
(* verify/trust: SimpleHTTPSGetter.Get, the transport under every collateral download,   *)
(* and DefaultHTTPSGetter, which wraps it in the retrying getter of Retry.tla.           *)
(* (Not one of the listed properties: part of the system's behaviour the specification   *)
(* covers; C19's "download failures" and C20's "wrapped getter" rest on it.)             *)
(*   Connect -> Handshake -> Exchange [-> Follow]* -> ReadBody -> Return                 *)
(* A response is a success exactly when the connection, the TLS handshake under the      *)
(* system's trust store and the exchange succeed, redirects lead somewhere, the final    *)
(* status is below 300 and the body can be read to its end; then the headers the server  *)
(* set and the body bytes come back unchanged.  Everything else is an error, without     *)
(* data.                                                                                 *)
(***************************************************************************************)
EXTENDS Naturals, Sequences, TLC

Statuses   == {200, 201, 202, 204, 206, 299, 300, 304, 400, 401, 404, 429, 500, 502, 503}
Transports == {"ok", "connectRefused", "untrustedCert", "wrongHost", "resetInBody", "shortBody", "absurdLength"}
\*   connectRefused: the proxy / host refuses the connection;  untrustedCert: the server's certificate does not chain to the trust store;
\*   wrongHost: a trusted certificate for another name;  resetInBody / shortBody: the connection dies / ends before Content-Length bytes;
\*   absurdLength: the response announces 2^63 - 1 bytes and ends after a few (the length a server states is not a size to allocate)
Redirects  == {"none", "once", "twice", "loop", "noLocation"}     \* 301/302/307 hops before the final status
Bodies     == {"empty", "small", "large", "binary"}
Headers    == {"none", "single", "multi"}                          \* extra headers the server sets (one value, several values)

Case == [status : Statuses, transport : Transports, redirect : Redirects, body : Bodies, hdr : Headers]
BodyAllowed(c) == c.status \in {204, 304} => c.body = "empty"

\* declaratively
Succeeds(c) == c.transport = "ok" /\ c.redirect \in {"none", "once", "twice"} /\ c.status < 300

VARIABLES c, pc, hops, result
vars == <<c, pc, hops, result>>
Init == /\ c \in {x \in Case : BodyAllowed(x)
                              /\ (x.transport # "ok" => x.redirect = "none" /\ x.status = 200)      \* one fault at a time
                              /\ (x.redirect # "none" => x.status \in {200, 404, 503})}
        /\ pc = "connect" /\ hops = 0 /\ result = "none"
Fail == result' = "error" /\ pc' = "done"
Connect   == /\ pc = "connect" /\ (IF c.transport = "connectRefused" THEN Fail ELSE pc' = "handshake" /\ result' = result) /\ UNCHANGED <<c, hops>>
Handshake == /\ pc = "handshake" /\ (IF c.transport \in {"untrustedCert", "wrongHost"} THEN Fail ELSE pc' = "exchange" /\ result' = result) /\ UNCHANGED <<c, hops>>
\* one request / response; a redirect status sends the client to the Location it names (http.Get follows up to ten)
Pending == CASE c.redirect = "once" -> 1 - hops [] c.redirect = "twice" -> 2 - hops [] c.redirect = "loop" -> 11 - hops [] OTHER -> 0
Exchange == /\ pc = "exchange"
            /\ IF c.redirect = "noLocation" THEN Fail /\ hops' = hops                    \* a 301 without Location cannot be followed
               ELSE IF Pending > 0 THEN (IF hops >= 10 THEN Fail /\ hops' = hops ELSE hops' = hops + 1 /\ pc' = "exchange" /\ result' = result)
               ELSE IF c.status >= 300 THEN Fail /\ hops' = hops
               ELSE pc' = "body" /\ result' = result /\ hops' = hops
            /\ UNCHANGED c
ReadBody == /\ pc = "body" /\ (IF c.transport \in {"resetInBody", "shortBody", "absurdLength"} THEN Fail ELSE result' = "data" /\ pc' = "done") /\ UNCHANGED <<c, hops>>
Next == Connect \/ Handshake \/ Exchange \/ ReadBody
Spec == Init /\ [][Next]_vars

Done == pc = "done"
TypeOK == result \in {"none", "data", "error"} /\ hops \in 0..11
DataExactlyOnSuccess == Done => ((result = "data") = Succeeds(c))
BoundedRedirects == hops <= 10
=================================================================================
