----------------------------- MODULE CheckTool_Trace -----------------------------
(* Recorded runs of the real tools/check binary (built from the tree under test) on generated quotes, config   *)
(* files, bundles and, where the case says so, a fake PCS reached through HTTPS_PROXY.  The exit status must be *)
(* one CheckTool allows for the case; a Go panic trace on stderr ("crash") is never allowed.  A second kind of  *)
(* event, ErrClass, records what errors.As finds in the error of verify.TdxQuote when a fetch fails.           *)
EXTENDS CheckTool, Json
CONSTANTS TraceFile
Trace == ndJsonDeserialize(TraceFile)
VARIABLES l
tvars == <<vars, l>>
Mark(k) == TLCSet(42, IF TLCGet(42) > k THEN TLCGet(42) ELSE k)
IsEvent(ev) == l <= Len(Trace) /\ Trace[l].ev = ev /\ l' = l + 1
TInit == c = Base /\ pc = 1 /\ exit = 0 /\ l = 1 /\ TLCSet(42, 1)
TCall == /\ IsEvent("Call") /\ exit # -1
         /\ c' = Trace[l].input /\ pc' = 1 /\ exit' = -1
Silent == /\ l <= Len(Trace) /\ UNCHANGED l /\ Next
TReturn == /\ IsEvent("Return") /\ exit # -1
           /\ ~Trace[l].crash
           /\ Trace[l].exit \in ExitSet(c)
           \* the flags bound the retrying: -timeout=400ms -max_retry_delay=60ms (or less) means the tool is done well within five seconds
           /\ (c.net \in {"unreachable", "serverError", "tcbFails", "qeFails"} => Trace[l].elapsedMs <= 5000)
           \* a failing run says why on stderr ("FATAL: ..."), except under -quiet, where the exit code says it all.
           \* DEV (as coded): -quiet's help text promises "nothing on stdout or stderr"; the logger's INFO lines on stdout and the flag
           \* package's usage text are written regardless, so only the FATAL line is bound here.
           /\ (c.present = "quiet" => ~Trace[l].fatalLine)
           /\ (c.present # "quiet" /\ Trace[l].exit # 0 => ~Trace[l].stderrEmpty)      \* FATAL line, or the usage text for a malformed flag
           /\ UNCHANGED vars
\* library side: a failed collateral fetch is an AttestationRecreationErr, a failed CRL fetch a CRLUnavailableErr, findable with errors.As;
\* a verification failure that is not a fetch failure is neither
TErrClass == /\ IsEvent("ErrClass")
             /\ CASE Trace[l].failing \in {"tcb", "qe"} -> Trace[l].asRecreation /\ ~Trace[l].asCrl
                  [] Trace[l].failing \in {"pckcrl", "rootcrl"} -> Trace[l].asCrl /\ ~Trace[l].asRecreation
                  [] OTHER -> ~Trace[l].asCrl /\ ~Trace[l].asRecreation
             /\ UNCHANGED vars
TNext == (TCall \/ Silent \/ TReturn \/ TErrClass) /\ Mark(l')
TSpec == TInit /\ [][TNext]_tvars
TraceAccepted == PrintT(<<"HWM", TLCGet(42)>>) /\ TLCGet(42) = Len(Trace) + 1
=================================================================================
