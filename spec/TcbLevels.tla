-------------------------------- MODULE TcbLevels --------------------------------
(***************************************************************************************)
(* Intel's TCB-level selection as used by verify.TdxQuote with collateral (C04, C07):    *)
(*  - platform: the first level in listed order whose 16 SGX component SVNs, PCE SVN and *)
(*    TDX component SVNs (from index 2 when TEE_TCB_SVN[1] # 0) are all not above the    *)
(*    platform's;                                                                        *)
(*  - TDX module (TEE_TCB_SVN[1] # 0): identity TDX_<TEE_TCB_SVN[1]>, its first level    *)
(*    with isvsvn <= TEE_TCB_SVN[0];                                                     *)
(*  - QE: the first level with isvsvn <= the QE report's ISVSVN.                          *)
(* Each comparison is reduced to pass / fail-at-a-boundary-index (small-scope            *)
(* abstraction of the property's quantifier).  The selection is written twice: as the    *)
(* declarative first-match and as the loops the code runs; TLC checks they agree.        *)
(***************************************************************************************)
EXTENDS Naturals, Sequences, FiniteSets, TLC

CONSTANTS MaxPlat,      \* longest platform level list explored
          PlatStatuses, \* statuses used in platform lists (all seven are swept on the deciding level separately)
          MaxQe         \* longest QE level list

Statuses == {"UpToDate", "SWHardeningNeeded", "ConfigurationNeeded", "ConfigurationAndSWHardeningNeeded",
             "OutOfDate", "OutOfDateConfigurationNeeded", "Revoked"}

\* one platform level, relative to the platform under test
SgxRel == {"pass", "f0", "f15"}            \* all 16 components <= platform's / component 0 above / component 15 above
PceRel == {"below", "equal", "above"}      \* level's PCE SVN vs the platform's
TdxRel == {"pass", "f0", "f1", "f2", "f15"} \* TDX components: all <= / index 0, 1, 2 or 15 above the TD's TEE_TCB_SVN
PlatLevel(S) == [sgx : SgxRel, pce : PceRel, tdx : TdxRel, st : S]

\* module identities: none, only another version's, or the matching one with up to two levels (isvsvn <= / > TEE_TCB_SVN[0])
ModLevel == [rel : {"le", "gt"}, st : Statuses]
ModCfgs == {[id |-> "absent", lv |-> <<>>], [id |-> "other", lv |-> <<>>]}
           \cup {[id |-> "match", lv |-> l] : l \in {<<>>} \cup {<<a>> : a \in ModLevel} \cup {<<a, b>> : a \in ModLevel, b \in [rel : {"le", "gt"}, st : {"UpToDate", "Revoked"}]}}

\* QE levels relative to the report's ISVSVN, in any (also unsorted) order
QeLevel == [rel : {"lt", "eq", "gt"}, st : Statuses]

SeqsUpTo(S, n) == UNION {[1..k -> S] : k \in 0..n}

(* ------------------------------ declarative: first match ----------------------------- *)
TdxOk(t, svn1) == t = "pass" \/ (svn1 # 0 /\ t \in {"f0", "f1"})      \* indices 0 and 1 are skipped when TEE_TCB_SVN[1] # 0
Matches(l, svn1) == l.sgx = "pass" /\ l.pce \in {"below", "equal"} /\ TdxOk(l.tdx, svn1)
FirstIdx(s, P(_)) == IF \E i \in DOMAIN s : P(s[i]) THEN CHOOSE i \in DOMAIN s : P(s[i]) /\ \A j \in 1..(i - 1) : ~P(s[j]) ELSE 0

PlatIdx(levels, svn1) == FirstIdx(levels, LAMBDA l : Matches(l, svn1))
ModIdx(m) == FirstIdx(m.lv, LAMBDA l : l.rel = "le")
QeIdx(levels) == FirstIdx(levels, LAMBDA l : l.rel \in {"lt", "eq"})

\* C04: accepted iff platform level found and UpToDate and (module branch => identity present, level found, UpToDate)
ExpectedTcb(levels, svn1, m) ==
  LET p == PlatIdx(levels, svn1) IN
  IF p = 0 THEN "reject"
  ELSE IF levels[p].st # "UpToDate" THEN "reject"
  ELSE IF svn1 = 0 THEN "accept"
  ELSE IF m.id # "match" \/ ModIdx(m) = 0 THEN "reject"
  ELSE IF m.lv[ModIdx(m)].st = "UpToDate" THEN "accept" ELSE "reject"
\* the reporting API: an error, never an empty level, when nothing matches
ExpectedReport(levels, svn1, m) ==
  IF PlatIdx(levels, svn1) = 0 THEN "error"
  ELSE IF svn1 # 0 /\ (m.id # "match" \/ ModIdx(m) = 0) THEN "error" ELSE "level"
\* C07
ExpectedQe(levels) == LET q == QeIdx(levels) IN IF q = 0 THEN "reject" ELSE IF levels[q].st = "UpToDate" THEN "accept" ELSE "reject"

(* ------------------------------ as coded: the loops ----------------------------------- *)
VARIABLES kind, plat, svn1, mod, qe,        \* the case
          pc, i, found, modFound, result
vars == <<kind, plat, svn1, mod, qe, pc, i, found, modFound, result>>

PlatLists == SeqsUpTo(PlatLevel(PlatStatuses), MaxPlat)
\* the deciding level swept over all seven statuses, alone and behind a non-matching level
StatusSweep == {<<l>> : l \in PlatLevel(Statuses)} \cup
               {<<[sgx |-> "f0", pce |-> "equal", tdx |-> "pass", st |-> "UpToDate"], [sgx |-> "pass", pce |-> "equal", tdx |-> "pass", st |-> s]>> : s \in Statuses}

Init == /\ \/ /\ kind = "tcb" /\ plat \in PlatLists \cup StatusSweep /\ svn1 \in {0, 1}
              /\ mod \in (IF svn1 = 0 THEN {[id |-> "absent", lv |-> <<>>], [id |-> "match", lv |-> <<[rel |-> "le", st |-> "Revoked"]>>]} ELSE ModCfgs)
              /\ qe = <<>>
           \/ /\ kind = "qe" /\ qe \in SeqsUpTo(QeLevel, MaxQe) /\ plat = <<>> /\ svn1 = 0 /\ mod = [id |-> "absent", lv |-> <<>>]
        /\ pc = "scan" /\ i = 1 /\ found = 0 /\ modFound = 0 /\ result = "none"

ScanPlat == /\ kind = "tcb" /\ pc = "scan"
            /\ IF i > Len(plat) THEN pc' = "done" /\ result' = "reject" /\ UNCHANGED <<i, found>>        \* no matching TCB level found
               ELSE IF Matches(plat[i], svn1) THEN found' = i /\ pc' = (IF svn1 = 0 THEN "status" ELSE "module") /\ UNCHANGED <<i, result>>
               ELSE i' = i + 1 /\ UNCHANGED <<pc, found, result>>
            /\ UNCHANGED <<kind, plat, svn1, mod, qe, modFound>>
ScanModule == /\ pc = "module"
              /\ IF mod.id # "match" \/ ModIdx(mod) = 0 THEN pc' = "done" /\ result' = "reject" /\ UNCHANGED modFound
                 ELSE modFound' = ModIdx(mod) /\ pc' = "status" /\ UNCHANGED result
              /\ UNCHANGED <<kind, plat, svn1, mod, qe, i, found>>
\* after the F6 repair: a platform level that is not UpToDate decides; otherwise the module level does
CombineStatus == /\ kind = "tcb" /\ pc = "status"
                 /\ LET st == IF plat[found].st # "UpToDate" THEN plat[found].st
                              ELSE IF svn1 # 0 THEN mod.lv[modFound].st ELSE plat[found].st
                    IN result' = IF st = "UpToDate" THEN "accept" ELSE "reject"
                 /\ pc' = "done" /\ UNCHANGED <<kind, plat, svn1, mod, qe, i, found, modFound>>
ScanQe == /\ kind = "qe" /\ pc = "scan"
          /\ IF i > Len(qe) THEN pc' = "done" /\ result' = "reject" /\ UNCHANGED <<i, found>>
             ELSE IF qe[i].rel \in {"lt", "eq"} THEN found' = i /\ pc' = "done" /\ result' = (IF qe[i].st = "UpToDate" THEN "accept" ELSE "reject") /\ UNCHANGED i
             ELSE i' = i + 1 /\ UNCHANGED <<pc, found, result>>
          /\ UNCHANGED <<kind, plat, svn1, mod, qe, modFound>>
Next == ScanPlat \/ ScanModule \/ CombineStatus \/ ScanQe
Spec == Init /\ [][Next]_vars

Done == pc = "done"
TypeOK == result \in {"none", "accept", "reject"}
LoopIsFirstMatch == Done => result = (IF kind = "tcb" THEN ExpectedTcb(plat, svn1, mod) ELSE ExpectedQe(qe))
OnlyUpToDatePasses == (Done /\ result = "accept" /\ kind = "tcb") =>
                         /\ plat[PlatIdx(plat, svn1)].st = "UpToDate"
                         /\ (svn1 # 0 => mod.lv[ModIdx(mod)].st = "UpToDate")
=================================================================================
