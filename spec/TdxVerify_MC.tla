------------------------------ MODULE TdxVerify_MC ------------------------------
(* Model-checking wrapper: exhaustive exploration of TdxVerify for the constants of a .cfg, *)
(* plus export of the case list (one JSON line per initial state) for the harness.          *)
EXTENDS TdxVerify, Json

ExportCase ==
  (pc = 1 /\ verdict = "none" /\ fetches = <<>>) =>
     PrintT(<<"CASE", ToJson([w |-> w, o |-> o, model |-> CodeVerdict(w, o),
                              honest |-> Honest(w, o), necessary |-> Necessary(w, o)])>>)
\* the case list only needs the initial states: this specification takes no step
ExportSpec == Init /\ [][FALSE]_vars
=================================================================================
