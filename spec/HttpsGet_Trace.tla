----------------------------- MODULE HttpsGet_Trace -----------------------------
(* Recorded calls of trust.SimpleHTTPSGetter.Get against an in-harness TLS server reached through an HTTP CONNECT proxy        *)
(* (HTTPS_PROXY / SSL_CERT_FILE of the harness process), one per case of HttpsGet; and of trust.DefaultHTTPSGetter's shape.     *)
EXTENDS HttpsGet, Json
CONSTANTS TraceFile
Trace == ndJsonDeserialize(TraceFile)
VARIABLES l
tvars == <<vars, l>>
Mark(k) == TLCSet(42, IF TLCGet(42) > k THEN TLCGet(42) ELSE k)
IsEvent(ev) == l <= Len(Trace) /\ Trace[l].ev = ev /\ l' = l + 1
TInit == c = [status |-> 200, transport |-> "ok", redirect |-> "none", body |-> "empty", hdr |-> "none"] /\ pc = "done" /\ hops = 0 /\ result = "idle" /\ l = 1 /\ TLCSet(42, 1)
TCall == /\ IsEvent("Call") /\ pc = "done"
         /\ c' = Trace[l].input /\ pc' = "connect" /\ hops' = 0 /\ result' = "none"
Silent == /\ l <= Len(Trace) /\ UNCHANGED l /\ Next
\* the server saw exactly the requests the model makes (one per hop plus the final one), unless the connection never got that far
TReturn == /\ IsEvent("Return") /\ pc = "done" /\ result \in {"data", "error"}
           /\ Trace[l].result = result
           /\ (result = "data" => Trace[l].bodyOk /\ Trace[l].headersOk)      \* body bytes and the server's headers, unchanged
           /\ (result = "error" => Trace[l].noData)                           \* nil headers and nil body with an error
           /\ (c.transport \in {"ok", "resetInBody", "shortBody", "absurdLength"} /\ c.redirect \notin {"noLocation", "loop"} => Trace[l].requests = hops + 1)
           /\ (c.redirect = "loop" => Trace[l].requests = 10)                  \* http.Get gives up after ten requests
           /\ result' = "returned" /\ UNCHANGED <<c, pc, hops>>
\* DefaultHTTPSGetter is the retrying getter around the simple one, two minutes / thirty seconds
TDefault == /\ IsEvent("Default") /\ Trace[l].timeoutMs = 120000 /\ Trace[l].maxRetryDelayMs = 30000 /\ Trace[l].wrapsSimple
            /\ UNCHANGED vars
TNext == (TCall \/ Silent \/ TReturn \/ TDefault) /\ Mark(l')
TSpec == TInit /\ [][TNext]_tvars
TraceAccepted == PrintT(<<"HWM", TLCGet(42)>>) /\ TLCGet(42) = Len(Trace) + 1
=================================================================================
