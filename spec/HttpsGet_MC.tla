------------------------------ MODULE HttpsGet_MC ------------------------------
EXTENDS HttpsGet, Json
ExportCase == (pc = "connect") => PrintT(<<"CASE", ToJson(c)>>)
=================================================================================
