------------------------------- MODULE Rtmr_Trace -------------------------------
(* Recorded histories of rtmr.ExtendDigestClient / ExtendEventLogClient against an in-memory *)
(* configfsi.Client must be behaviours of Rtmr.  Every TSM *write* (MkdirTemp, WriteFile) is  *)
(* bound to the model's write steps with its entry and, for the digest, the fact that the    *)
(* bytes are exactly the given digest / the SHA-384 of the given log; reads are not bound    *)
(* (the property constrains writes only).  After every call the registers reported by the    *)
(* TSM must equal the model's.                                                               *)
EXTENDS Rtmr, Json

CONSTANTS TraceFile
Trace == ndJsonDeserialize(TraceFile)
VARIABLES l
tvars == <<vars, l>>

Mark(n) == TLCSet(42, IF TLCGet(42) > n THEN TLCGet(42) ELSE n)
IsEvent(e) == l <= Len(Trace) /\ Trace[l].ev = e /\ l' = l + 1

TInit == /\ init = "empty" /\ tsm = <<>> /\ req = NoReq /\ pc = "idle" /\ scan = 0 /\ target = 0 /\ calls = 0
         /\ writes = <<>> /\ result = "none" /\ hist = <<>> /\ l = 1 /\ TLCSet(42, 1)

\* a new case: fresh TSM in the logged initial state
TCall == /\ IsEvent("Call") /\ pc = "idle"
         /\ init' = Trace[l].input.init /\ tsm' = InitTsm(Trace[l].input.init)
         /\ req' = NoReq /\ pc' = "idle" /\ scan' = 0 /\ target' = 0 /\ calls' = 0
         /\ writes' = <<>> /\ result' = "none" /\ hist' = <<>>

TReq == /\ IsEvent("Req") /\ Call(Trace[l].r)

Silent == /\ l <= Len(Trace) /\ UNCHANGED l /\ (Validate \/ ReadDir \/ ReadIndex \/ NoneBound)

TRead == /\ IsEvent("Op") /\ Trace[l].op \in {"ReadDir", "ReadFile"} /\ UNCHANGED vars

\* every write operation is logged with whether the TSM made it fail; a failing one is the call's fault, reached
TWrite == /\ IsEvent("Op")
          /\ \/ /\ Trace[l].op = "MkdirTemp" /\ MkdirTemp
                /\ Trace[l].failed = (req.fault = "mkdir") /\ (~Trace[l].failed => Trace[l].entry = target')
             \/ /\ Trace[l].op = "WriteFile" /\ Trace[l].attr = "index" /\ WriteIndex
                /\ Trace[l].failed = (req.fault = "index")
                /\ Trace[l].entry = target /\ Trace[l].val = req.index
             \/ /\ Trace[l].op = "WriteFile" /\ Trace[l].attr = "digest" /\ WriteDigest
                /\ Trace[l].failed = (req.fault \in {"digest", "digestLate"})
                /\ Trace[l].entry = target /\ Trace[l].digestOk

TReturn == /\ IsEvent("Return") /\ pc = "idle" /\ req.kind # "idle"
           /\ result = Trace[l].kind /\ Trace[l].valuesOk      \* real SHA-384 extend chains agree with an independent fold
           /\ \A i \in 0..3 : Register(i) = Trace[l].regs[i + 1]
           /\ req' = NoReq /\ UNCHANGED <<tsm, pc, scan, target, calls, writes, result, hist, init>>

TNext == (TCall \/ TReq \/ Silent \/ TRead \/ TWrite \/ TReturn) /\ Mark(l')
TSpec == TInit /\ [][TNext]_tvars
TraceAccepted == PrintT(<<"HWM", TLCGet(42)>>) /\ TLCGet(42) = Len(Trace) + 1
=================================================================================
