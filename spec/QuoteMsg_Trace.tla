------------------------------ MODULE QuoteMsg_Trace ------------------------------
(* Recorded calls on structurally deviating messages.  Prop = "C09": CheckQuoteV4's verdict, the       *)
(* serialiser's outcome (and, for valid messages, that the bytes are exactly what the layout dictates)  *)
(* and the serialise-then-parse round trip are bound.  Prop = "C10": every entry point driven with the  *)
(* message must have returned a result or an error: the list of crashed / hung entry points is empty.   *)
EXTENDS QuoteMsg, Json
CONSTANTS TraceFile, Prop
Trace == ndJsonDeserialize(TraceFile)
VARIABLES l
tvars == <<vars, l>>
Mark(k) == TLCSet(42, IF TLCGet(42) > k THEN TLCGet(42) ELSE k)
IsEvent(ev) == l <= Len(Trace) /\ Trace[l].ev = ev /\ l' = l + 1
TInit == /\ c = <<NoDev, NoDev>> /\ pc = "done" /\ check = "none" /\ serial = "none" /\ round = "none" /\ l = 1 /\ TLCSet(42, 1)
TCall == /\ IsEvent("Call") /\ pc = "done"
         /\ c' = <<Trace[l].input.d1, Trace[l].input.d2>> /\ pc' = "check" /\ check' = "none" /\ serial' = "none" /\ round' = "none"
Silent == /\ l <= Len(Trace) /\ UNCHANGED l /\ Next
TReturn == /\ IsEvent("Return") /\ pc = "done" /\ check # "none"
           /\ IF Prop = "C10" THEN Trace[l].crashed = <<>>
              ELSE /\ Trace[l].check = check
                   /\ Trace[l].serial = serial
                   /\ (serial = "bytes" => Trace[l].bytesOk)
                   /\ (serial = "bytes" => Trace[l].round = round)
           /\ check' = "none" /\ UNCHANGED <<c, pc, serial, round>>
TNext == (TCall \/ Silent \/ TReturn) /\ Mark(l')
TSpec == TInit /\ [][TNext]_tvars
TraceAccepted == PrintT(<<"HWM", TLCGet(42)>>) /\ TLCGet(42) = Len(Trace) + 1
=================================================================================
