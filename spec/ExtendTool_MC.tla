------------------------------ MODULE ExtendTool_MC ------------------------------
EXTENDS ExtendTool, Json
ExportCase == (pc = "flags") => PrintT(<<"CASE", ToJson([in |-> in, index |-> index, quiet |-> quiet, verbosity |-> verbosity])>>)
=================================================================================
