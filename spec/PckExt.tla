--------------------------------- MODULE PckExt ---------------------------------
(***************************************************************************************)
(* pcs.PckCertificateExtensions (C13): extraction of PPID, the 16 component SVNs,        *)
(* PCESVN, CPUSVN, PCE-ID and FMSPC from the SGX extension of a PCK certificate.         *)
(* The extension is a sequence of elements (OID kind, value class); the TCB element      *)
(* nests a sequence of 18.  Extraction is the fold the code performs, element by         *)
(* element; the declarative result is a function of the OID -> value map alone, hence    *)
(* independent of the order.                                                             *)
(***************************************************************************************)
EXTENDS Naturals, Sequences, FiniteSets, TLC

CONSTANTS FaultTcbOrders,   \* TCB orders combined with a deviation (all orders are explored without deviation)
          FaultExtras,      \* positions of unknown elements combined with a deviation
          FaultTops         \* how many of the 24 top-level orders are combined with a deviation: "all" | "few"

TopKinds == {"ppid", "tcb", "pceid", "fmspc"}
TcbKinds == {"c1", "c2", "c3", "c4", "c5", "c6", "c7", "c8", "c9", "c10", "c11", "c12", "c13", "c14", "c15", "c16", "pcesvn", "cpusvn"}
CanonTcb == <<"c1", "c2", "c3", "c4", "c5", "c6", "c7", "c8", "c9", "c10", "c11", "c12", "c13", "c14", "c15", "c16", "pcesvn", "cpusvn">>

\* value classes of one element
\*   ok        a value that fits (components: 0, 1, 127, 128, 255; PCESVN: 0, 255, 256, 65535; octet strings of the right size)
\*   tooBig    256 / 65535 / 65536 for a component, 65536 for PCESVN;  negative   -1
\*   badLen    octet string one byte short or long;  badType  INTEGER where OCTET STRING is expected and vice versa
\*   nested    an octet string of the wrong size whose content is itself the DER of a right-sized octet string
\*   trailing  bytes after the value inside the element
\*   derLike   an octet string of the right size whose bytes read as the complete DER of a shorter octet string (04 <size-2> ...): a value like any other
Classes == {"ok", "tooBig", "negative", "badLen", "badType", "nested", "trailing", "derLike"}
Fits(cls) == cls \in {"ok", "derLike"}

\* structural faults of the whole extension
Structs == {"none", "absent", "truncated", "trailingTop", "trailingTcb", "tcbNotSeq", "tcb17", "tcb19"}

\* order variants of the 18 TCB elements
Swap(s, i, j) == [k \in DOMAIN s |-> IF k = i THEN s[j] ELSE IF k = j THEN s[i] ELSE s[k]]
Rot(s, r) == [k \in DOMAIN s |-> s[((k - 1 + r) % Len(s)) + 1]]
Rev(s) == [k \in DOMAIN s |-> s[Len(s) + 1 - k]]
TcbOrders == [canon |-> CanonTcb, swap12 |-> Swap(CanonTcb, 1, 2), swap1x16 |-> Swap(CanonTcb, 1, 16), swap16x17 |-> Swap(CanonTcb, 16, 17),
              swap17x18 |-> Swap(CanonTcb, 17, 18), rot1 |-> Rot(CanonTcb, 1), rot9 |-> Rot(CanonTcb, 9), rev |-> Rev(CanonTcb),
              random |-> CanonTcb]       \* "random": a seeded random permutation chosen by the harness (the model is order-blind)
Perm4 == {p \in [1..4 -> TopKinds] : \A i, j \in 1..4 : p[i] = p[j] => i = j}
\* unknown elements (SGX type, platform instance ...) may sit anywhere
Extras == {"none", "front", "back", "both"}
WithExtras(p, x) == CASE x = "none" -> p [] x = "front" -> <<"unknown">> \o p [] x = "back" -> p \o <<"unknown">> [] x = "both" -> <<"unknown">> \o p \o <<"unknown">>

\* element-level deviation: which element (top-level or TCB), what happens to it
Targets == TopKinds \cup {"c1", "c2", "c16", "pcesvn", "cpusvn"}
Devs == {"none", "class", "missing", "missingDup", "dupSame", "dupOther"}
\*   missingDup  the element is replaced by a second copy of a neighbouring element (counts stay the same, one OID twice, one absent)
\*   missing  the element is replaced by an element of unknown OID (counts stay the same)
\*   dupSame  the element occurs twice with the same value; dupOther twice with different values (first one is the listed value)

Case == [top : Perm4, extras : Extras, tcbOrder : DOMAIN TcbOrders, struct : Structs, target : Targets, dev : Devs, cls : Classes]
\* meaningful combinations only (a fault budget of one deviation, any order)
FewTops == {p \in Perm4 : p[1] \in {"ppid", "fmspc"} /\ p[2] \in {"tcb", "ppid"}}
WellFormedCase(c) ==
  /\ ((c.dev # "none" \/ c.struct # "none") => /\ c.tcbOrder \in FaultTcbOrders /\ c.extras \in FaultExtras
                                                /\ (FaultTops = "few" => c.top \in FewTops))
  /\ (c.dev = "none" => c.cls = "ok" /\ c.target = "ppid")
  /\ (c.dev # "class" => c.cls = "ok")
  /\ (c.dev = "class" => c.cls # "ok")
  /\ (c.struct # "none" => c.dev = "none")
  /\ (c.cls \in {"tooBig", "negative"} => c.target \in {"c1", "c2", "c16", "pcesvn"})
  /\ (c.cls = "badLen" => c.target \in {"ppid", "pceid", "fmspc", "cpusvn"})
  /\ (c.cls = "nested" => c.target \in {"ppid", "pceid", "fmspc"})
  /\ (c.cls = "derLike" => c.target \in {"ppid", "pceid", "fmspc", "cpusvn"})
  /\ (c.target = "tcb" => c.dev \in {"none", "missing", "dupSame"})
  /\ (c.dev = "missingDup" => c.target \in {"c1", "c2", "c16", "pcesvn", "ppid", "fmspc"})

(* ------------------------------ declarative result ---------------------------------- *)
\* "values": exactly the encoded values;  "error";  "either": the statement does not say (conflicting duplicates)
Expected(c) ==
  CASE c.struct # "none" -> "error"                 \* missing extension, malformed ASN.1, wrong element count, trailing bytes
    [] c.dev = "none" -> "values"
    [] c.dev = "class" /\ c.cls = "derLike" -> "values"
    [] c.dev = "class" /\ c.cls = "trailing" -> "valuesOrError"   \* extra data after a correctly encoded value inside its element:
                                                    \* the value itself is intact; the statement only forbids a wrong value
    [] c.dev = "class" -> "error"                   \* does not fit / wrongly sized / wrong type
    [] c.dev \in {"missing", "missingDup"} -> "error"   \* never a silently wrong (zero / empty) value
    [] c.dev = "dupSame" -> "valuesOrError"
    [] c.dev = "dupOther" -> "either"

(* ------------------------------ extraction as coded --------------------------------- *)
VARIABLES c, pc, i, seen, result
vars == <<c, pc, i, seen, result>>

Init == /\ c \in {x \in Case : WellFormedCase(x)}
        /\ pc = "outer" /\ i = 1 /\ seen = {} /\ result = "none"

TopSeq == WithExtras(c.top, c.extras)

\* 1. the certificate must have six extensions, one of them the SGX extension, which must be a SEQUENCE with nothing after it
Outer == /\ pc = "outer"
         /\ IF c.struct \in {"absent", "truncated", "trailingTop"} THEN result' = "error" /\ pc' = "done"
            ELSE pc' = "top" /\ result' = result
         /\ UNCHANGED <<c, i, seen>>

ElemFails(kind) == c.target = kind /\ c.dev = "class" /\ ~Fits(c.cls)
                   /\ ~(c.cls = "nested")                         \* DEV (F13): a nested right-sized octet string is unwrapped
                   /\ ~(c.cls = "trailing" /\ kind \in TcbKinds \ {"cpusvn"})   \* DEV: Go's asn1 ignores extra fields of a SEQUENCE
Replaced(kind) == c.target = kind /\ c.dev \in {"missing", "missingDup"}

\* 2. fold over the top-level elements
TopElem == /\ pc = "top" /\ i <= Len(TopSeq)
           /\ LET k == TopSeq[i] IN
                IF k = "unknown" \/ Replaced(k) THEN i' = i + 1 /\ UNCHANGED <<pc, seen, result>>
                ELSE IF k = "tcb" THEN pc' = "tcb" /\ UNCHANGED <<i, seen, result>>
                ELSE IF ElemFails(k) THEN result' = "error" /\ pc' = "done" /\ UNCHANGED <<i, seen>>
                ELSE seen' = seen \cup {k} /\ i' = i + 1 /\ UNCHANGED <<pc, result>>
           /\ UNCHANGED c

\* 3. the TCB element: a SEQUENCE of exactly 18 elements, each component checked for its range
TcbElem == /\ pc = "tcb"
           /\ IF c.struct \in {"trailingTcb", "tcbNotSeq", "tcb17", "tcb19"} THEN result' = "error" /\ pc' = "done" /\ UNCHANGED <<i, seen>>
              ELSE IF \E k \in TcbKinds : ElemFails(k) THEN result' = "error" /\ pc' = "done" /\ UNCHANGED <<i, seen>>
              ELSE /\ seen' = seen \cup {"tcb"} \cup {k \in TcbKinds : ~Replaced(k)}
                   /\ i' = i + 1 /\ pc' = "top" /\ UNCHANGED result
           /\ UNCHANGED c

\* 4. every required element must have been seen (after the F9 repair; before it missing elements yielded zero values)
Finish == /\ pc = "top" /\ i > Len(TopSeq)
          /\ result' = IF TopKinds \subseteq seen /\ TcbKinds \subseteq seen THEN "values" ELSE "error"
          /\ pc' = "done" /\ UNCHANGED <<c, i, seen>>

Next == Outer \/ TopElem \/ TcbElem \/ Finish
Spec == Init /\ [][Next]_vars

Done == pc = "done"
TypeOK == result \in {"none", "values", "error"}
Allowed(exp, res) == CASE exp = "values" -> res = "values" [] exp = "error" -> res = "error" [] OTHER -> res \in {"values", "error"}
\* the modelled deviation F13 is the only place where the fold and the declarative result may differ
ExactOrError == Done => (Allowed(Expected(c), result) \/ (c.dev = "class" /\ c.cls = "nested"))
\* order independence: the result does not depend on top / extras / tcbOrder (all three are absent from Expected and from the fold's outcome)
OrderBlind == Done => result = (IF c.struct # "none" \/ c.dev \in {"missing", "missingDup"} \/ (\E k \in TopKinds \cup TcbKinds : ElemFails(k)) THEN "error" ELSE "values")
=================================================================================
