--------------------------------- MODULE Policy ---------------------------------
(***************************************************************************************)
(* validate.TdxQuote (C08) and validate.PolicyToOptions (C14) of go-tdx-guest.           *)
(* A case gives, per expectation, the abstract relation between what is configured and   *)
(* what the quote carries.  Literal(c) is the declarative reading ("the quote meets      *)
(* every stated expectation"); the step machine evaluates the checks in the order the    *)
(* code does and combines their errors.  In "policy" mode the options come out of        *)
(* PolicyToOptions, which must refuse every malformed message.                           *)
(***************************************************************************************)
EXTENDS Naturals, Sequences, FiniteSets, TLC

CONSTANTS K,       \* fault budget over all dimensions
          Focus    \* dimensions whose pairs are enumerated as well

ByteFields == {"qeVendorId", "mrSeam", "tdAttributes", "xfam", "mrTd", "mrConfigId", "mrOwner", "mrOwnerConfig", "reportData"}
ByteStates == <<"unset", "empty", "equal", "diffFirst", "diffLast", "short", "long">>

\* bit positions the fixed-0 masks allow to be 1 (XFAM: 0x0006DBE7, TD_ATTRIBUTES: DEBUG, SEPT_VE_DISABLE, PKS, PERFMON),
\* and those the fixed-1 masks require (XFAM bits 0 and 1)
XfamAllowed   == {0, 1, 2, 5, 6, 7, 8, 9, 11, 12, 14, 15, 17, 18}
XfamRequired  == {0, 1}
TdAttrAllowed == {0, 28, 30, 63}

BitStates(prefix) == [i \in 1..64 |-> prefix \o ToString(i - 1)]
SeqRange(s) == {s[i] : i \in DOMAIN s}

Dims ==
  [f \in ByteFields |-> ByteStates] @@
  [ rtmrs    |-> <<"unset", "allEqual", "allEmpty", "oneEmpty", "diff1", "diff2", "diff3", "diff4", "emptyThenDiff", "diffThenEmpty", "emptyThenShort",
                   "short2", "long3", "len1", "len3", "len5">>,
    anyMrTd  |-> <<"unset", "oneEqual", "diffThenEqual", "emptyEntry", "oneDiff", "twoDiff", "wrongSizeOnly", "wrongSizeThenEqual", "diffThenWrongSize">>,
    minQe    |-> <<"zero", "equal", "below", "betweenEndian", "above", "max", "big65536", "bigMax32">>,
    minPce   |-> <<"zero", "equal", "below", "betweenEndian", "above", "max", "big65536", "bigMax32">>,
    minTee   |-> <<"unset", "allEqual", "allBelow", "empty", "aboveFirst", "aboveSecond", "aboveLast", "belowThenAbove", "aboveThenBelow",
                   "above0Below1", "below0Above1", "aboveOnlyLastBelowRest",
                   "len1", "len15", "len17", "len17Above">>,
    quoteRtmrs |-> <<"four", "three", "none", "five">>,      \* how many RTMR entries the quote *message* carries (bytes always carry four): not four is no quote
    xfamBits |-> <<"base">> \o BitStates("set") \o <<"clear0", "clear1">>,
    tdAttrBits |-> <<"zero">> \o BitStates("set") ]

DimNames == DOMAIN Dims
Baseline == [d \in DimNames |-> Dims[d][1]]

Override(base, ds) ==
  LET Choices == [ds -> UNION {SeqRange(Dims[d]) : d \in ds}]
  IN  {[d \in DimNames |-> IF d \in ds THEN c[d] ELSE base[d]] :
          c \in {c \in Choices : \A d \in ds : c[d] \in SeqRange(Dims[d]) /\ c[d] # base[d]}}
Singles == UNION {Override(Baseline, {d}) : d \in DimNames}
Pairs(F) == UNION {UNION {Override(Baseline, {d, e}) : e \in F \ {d}} : d \in F}
\* a field pinned to exactly the value the quote carries does not excuse that value from the fixed-bit masks
PinnedBits == {[Baseline EXCEPT !.xfam = "equal", !.xfamBits = b] : b \in SeqRange(Dims.xfamBits)}
              \cup {[Baseline EXCEPT !.tdAttributes = "equal", !.tdAttrBits = b] : b \in SeqRange(Dims.tdAttrBits)}
Cases == {Baseline} \cup (IF K >= 1 THEN Singles \cup PinnedBits ELSE {}) \cup Pairs(Focus)
Modes == {"options", "policy", "policySparse"}
\* policySparse: a policy message whose sub-messages (header policy, TD quote body policy) are absent when nothing in them is configured
IsPolicy(m) == m \in {"policy", "policySparse"}

(* ------------------------- declarative reading, per dimension ------------------------ *)
\* "pass": the expectation holds or nothing is configured;  "miss": configured and not met;
\* "malformed": a wrongly sized / out-of-range expectation (can never be met)
BitOf(s) == CHOOSE b \in 0..63 : s = "set" \o ToString(b)
Reading(d, v) ==
  CASE d \in ByteFields ->
         (CASE v \in {"unset", "empty", "equal"} -> "pass" [] v \in {"diffFirst", "diffLast"} -> "miss" [] OTHER -> "malformed")
    [] d = "rtmrs" ->
         (CASE v \in {"unset", "allEqual", "allEmpty", "oneEmpty"} -> "pass"
            [] v \in {"diff1", "diff2", "diff3", "diff4", "emptyThenDiff", "diffThenEmpty"} -> "miss"   \* an empty entry is "not given"; the given ones still count
            [] OTHER -> "malformed")
    [] d = "anyMrTd" ->
         (CASE v \in {"unset", "oneEqual", "diffThenEqual"} -> "pass"
            [] v = "emptyEntry" -> "pass"                      \* not "a set of non-empty values": nothing is configured
            [] v \in {"oneDiff", "twoDiff"} -> "miss"
            [] v = "wrongSizeThenEqual" -> "malformedButMet"   \* a wrongly sized entry next to a matching one
            [] OTHER -> "malformed")
    [] d \in {"minQe", "minPce"} ->
         (CASE v \in {"zero", "equal", "below", "betweenEndian"} -> "pass"
            [] v \in {"above", "max"} -> "miss"
            [] OTHER -> "malformed")                          \* does not fit 16 bits
    [] d = "minTee" ->
         (CASE v \in {"unset", "allEqual", "allBelow", "empty"} -> "pass"
            [] v \in {"aboveFirst", "aboveSecond", "aboveLast", "belowThenAbove", "aboveThenBelow", "above0Below1", "below0Above1", "aboveOnlyLastBelowRest"} -> "miss"   \* component-wise, not lexicographic
            [] OTHER -> "malformed")
    [] d = "quoteRtmrs" -> (IF v = "four" THEN "pass" ELSE "miss")
    [] d = "xfamBits" ->
         (CASE v = "base" -> "pass" [] v \in {"clear0", "clear1"} -> "miss"
            [] OTHER -> IF BitOf(v) \in XfamAllowed THEN "pass" ELSE "miss")
    [] d = "tdAttrBits" ->
         (CASE v = "zero" -> "pass" [] OTHER -> IF BitOf(v) \in TdAttrAllowed THEN "pass" ELSE "miss")

\* C08: validation succeeds exactly when every configured expectation holds
Literal(c) == IF \A d \in DimNames : Reading(d, c[d]) = "pass" THEN "ok"
              ELSE IF \A d \in DimNames : Reading(d, c[d]) \in {"pass", "malformedButMet"} THEN "either"
              ELSE "reject"
\* C14: conversion must fail exactly for malformed messages (dimensions that exist in a policy message)
PolicyDims == DimNames \ {"xfamBits", "tdAttrBits", "quoteRtmrs"}
Malformed(c) == \E d \in PolicyDims : Reading(d, c[d]) \in {"malformed", "malformedButMet"}
\* DEV (as coded): an explicitly empty, non-nil byte string is refused as well ("length is 0").  C14 allows a conversion to fail
\* ("either fails or ..."), so this is a modelled deviation, not a finding; the trace specification accepts either outcome there.
ExplicitEmpty(c) == \E d \in ByteFields \cup {"minTee"} : c[d] = "empty"

(* ------------------------------- the checks as coded --------------------------------- *)
Checks == <<"convert", "quote", "exactBytes", "rtmrs", "anyMrTd", "minTee", "minQe", "minPce", "xfam", "tdAttributes">>

CheckResult(k, c, mode) ==
  CASE k = "convert" -> IF IsPolicy(mode) /\ (Malformed(c) \/ ExplicitEmpty(c)) THEN "refuse" ELSE "ok"
    [] k = "quote" -> IF c.quoteRtmrs = "four" THEN "ok" ELSE "abort"        \* CheckQuoteV4 first: a malformed message is refused before any comparison
    [] k = "exactBytes" -> IF \A f \in ByteFields : Reading(f, c[f]) = "pass" THEN "ok" ELSE "err"
    [] k = "rtmrs" -> IF Reading("rtmrs", c.rtmrs) = "pass" THEN "ok" ELSE "err"
    [] k = "anyMrTd" -> IF Reading("anyMrTd", c.anyMrTd) \in {"pass", "malformedButMet"} THEN "ok" ELSE "err"   \* first matching entry wins
    [] k = "minTee" -> IF Reading("minTee", c.minTee) = "pass" THEN "ok" ELSE "err"
    [] k = "minQe" -> IF Reading("minQe", c.minQe) = "pass" THEN "ok" ELSE "err"
    [] k = "minPce" -> IF Reading("minPce", c.minPce) = "pass" THEN "ok" ELSE "err"
    [] k = "xfam" -> IF Reading("xfamBits", c.xfamBits) = "pass" THEN "ok" ELSE "err"
    [] k = "tdAttributes" -> IF Reading("tdAttrBits", c.tdAttrBits) = "pass" THEN "ok" ELSE "err"

VARIABLES c, mode, pc, errs, result
vars == <<c, mode, pc, errs, result>>

\* SVN minimums beyond 16 bits only exist in policy messages (the options type is uint16)
Realisable(cc, m) == m = "options" => (cc.minQe \notin {"big65536", "bigMax32"} /\ cc.minPce \notin {"big65536", "bigMax32"})

Init == /\ c \in Cases /\ mode \in Modes /\ Realisable(c, mode)
        /\ pc = 1 /\ errs = 0 /\ result = "none"

Step(k) == /\ result = "none" /\ pc <= Len(Checks) /\ Checks[pc] = k
           /\ LET r == CheckResult(k, c, mode)
              IN IF r = "refuse" THEN result' = "refused" /\ UNCHANGED <<pc, errs>>
                 ELSE IF r = "abort" THEN result' = "reject" /\ UNCHANGED <<pc, errs>>
                 ELSE /\ pc' = pc + 1 /\ errs' = errs + (IF r = "err" THEN 1 ELSE 0) /\ UNCHANGED result   \* errors are combined, not short-circuited
           /\ UNCHANGED <<c, mode>>
Convert      == Step("convert")
QuoteShape   == Step("quote")
ExactBytes   == Step("exactBytes")
Rtmrs        == Step("rtmrs")
AnyMrTd      == Step("anyMrTd")
MinTee       == Step("minTee")
MinQe        == Step("minQe")
MinPce       == Step("minPce")
Xfam         == Step("xfam")
TdAttributes == Step("tdAttributes")
Finish == /\ result = "none" /\ pc = Len(Checks) + 1
          /\ result' = IF errs = 0 THEN "ok" ELSE "reject"
          /\ UNCHANGED <<c, mode, pc, errs>>
Next == Convert \/ QuoteShape \/ ExactBytes \/ Rtmrs \/ AnyMrTd \/ MinTee \/ MinQe \/ MinPce \/ Xfam \/ TdAttributes \/ Finish
Spec == Init /\ [][Next]_vars

Done == result # "none"
TypeOK == result \in {"none", "ok", "reject", "refused"}
\* C08
ExactlyConforming == (Done /\ result # "refused") => (Literal(c) = "either" \/ result = Literal(c))
\* C14
RefusesMalformed == (Done /\ IsPolicy(mode)) => /\ (Malformed(c) => result = "refused")
                                                  /\ (result = "refused" => Malformed(c) \/ ExplicitEmpty(c))
MeansTheSame == (Done /\ IsPolicy(mode) /\ result # "refused") => result = Literal(c)
=================================================================================
