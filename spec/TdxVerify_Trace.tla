----------------------------- MODULE TdxVerify_Trace -----------------------------
(* Strict conformance: the recorded execution must be a behaviour of the pipeline of      *)
(* TdxVerify itself.  Call re-initialises the machine from the logged world and options,  *)
(* unlogged stages are silent steps, each Fetch event must be the request the pipeline    *)
(* makes at that point, and Return must carry the pipeline's verdict.  A divergence here  *)
(* that TdxVerify_Judge does not also reject is model drift, not a property violation.    *)
EXTENDS TdxVerify, Json

CONSTANTS TraceFile

Trace == ndJsonDeserialize(TraceFile)

VARIABLES l
tvars == <<vars, l>>

Mark(n) == TLCSet(42, IF TLCGet(42) > n THEN TLCGet(42) ELSE n)
IsEvent(e) == l <= Len(Trace) /\ Trace[l].ev = e /\ l' = l + 1

TInit == /\ w = Baseline /\ o = [gc |-> FALSE, cr |-> FALSE, now |-> "set", entry |-> "raw"]
         /\ pc = 1 /\ verdict = "idle" /\ fetches = <<>> /\ dp = 1 /\ l = 1 /\ TLCSet(42, 1)

TCall == /\ IsEvent("Call") /\ verdict # "none"
         /\ w' = Trace[l].w /\ o' = Trace[l].o
         /\ pc' = 1 /\ verdict' = "none" /\ fetches' = <<>> /\ dp' = 1

Silent == /\ l <= Len(Trace) /\ UNCHANGED l
          /\ \/ RootOfTrust \/ CheckQuote \/ ExtractChain \/ ExtractCa \/ VerifyChain \/ VerifyCollateral
             \/ VerifyTcbInfo \/ VerifyQeIdentity \/ VerifyQuote \/ Accept
             \/ (fetches' = fetches /\ (FetchTcbInfo \/ FetchQeIdentity \/ FetchPckCrl \/ FetchRootCrl))

TFetch == /\ IsEvent("Fetch")
          /\ (FetchTcbInfo \/ FetchQeIdentity \/ FetchPckCrl \/ FetchRootCrl)
          /\ Len(fetches') = Len(fetches) + 1
          /\ \/ fetches'[Len(fetches')].kind = Trace[l].kind /\ Trace[l].ok
             \/ (fetches'[Len(fetches')].kind = "rootcrl" /\ Trace[l].kind = "other" /\ w.qeHdr = "bitflip")   \* the flipped bit sat in the distribution point

TReturn == /\ IsEvent("Return") /\ verdict = Trace[l].verdict /\ verdict \in {"accept", "reject"}
           /\ verdict' = "returned" /\ UNCHANGED <<w, o, pc, fetches, dp>>

\* the high-water mark is advanced only by a step that satisfied every conjunct of its action
TNext == (TCall \/ Silent \/ TFetch \/ TReturn) /\ Mark(l')
TSpec == TInit /\ [][TNext]_tvars

TraceAccepted == PrintT(<<"HWM", TLCGet(42)>>) /\ TLCGet(42) = Len(Trace) + 1
=================================================================================
