---------------------------- MODULE SystemAbstraction ----------------------------
(***************************************************************************************)
(* TdxGuestSystem.tla uses one-line abstractions of its components (VerifyOk, ParseOk,   *)
(* "the device yields data").  This module checks those abstractions against the        *)
(* component specifications themselves, so that the composition cannot drift from them:  *)
(*   verify  - for the worlds the end-to-end driver realises (harness/drv/system.go),    *)
(*             TdxVerify's pipeline as coded (CodeVerdict) accepts exactly when the      *)
(*             system's VerifyOk holds, and so do the declarative readings Necessary /   *)
(*             Honest;                                                                   *)
(*   guest   - the system's device behaviours are device records of GuestClient, and     *)
(*             "good" is the only one for which DeviceYieldsData holds;                  *)
(*   tool    - CheckTool's exit code is 0 exactly for the cases in which the system      *)
(*             delivers the quote (valid / forged quote, trusted / other root given by   *)
(*             flag or config, policy field by flag and config, collateral or not).      *)
(* It is evaluated by TLC as an invariant of TdxVerify's own specification with K = 0    *)
(* (the baseline world), i.e. once.                                                      *)
(***************************************************************************************)
EXTENDS TdxVerify

G == INSTANCE GuestClient WITH via <- "device", dev <- [rr |-> "r0", qr |-> "r0", st |-> "s0", ol |-> "exact", buf |-> "quote", len |-> "kept"], prov <- "bytes",
                               prior <- "none", pc <- "start", ioctls <- <<>>, opened <- FALSE, result <- "none"

SysTransits == {"intact", "flipSigned"}            \* the two transit classes that reach verification with a parsable quote and matter to it
SysTrusts   == {"trusted", "otherRoot"}
SysCollats  == {"ok", "tcbOutOfDate", "leafRevoked"}
SysLevels   == {0, 1, 2}

\* the system's abstraction, copied from TdxGuestSystem.tla (a module with its own VARIABLES cannot be instantiated under a quantifier)
SysCollatOk(lvl, collat) == CASE lvl = 0 -> TRUE [] lvl = 1 -> collat # "tcbOutOfDate" [] lvl = 2 -> collat = "ok"
SysVerifyOk(transit, trust, lvl, collat) == transit # "flipSigned" /\ trust = "trusted" /\ SysCollatOk(lvl, collat)

\* the worlds the end-to-end driver builds for a system case; a flipped signed bit is any of the post-signing mutations whose region is fully bound
\* (a header bit may also make the quote unparsable, which the system counts as a parse rejection: both ways nothing is delivered)
SignedRegions == {"body", "ak", "qeReport", "authData", "sig", "qeSig"}
WorldsOf(transit, trust, collat) ==
  LET base == [Baseline EXCEPT !.modBranch = "modOk", !.extra = "some",
                               !.pool = (IF trust = "otherRoot" THEN "B" ELSE "A"),
                               !.tcbContent = (IF collat = "tcbOutOfDate" THEN "outOfDate" ELSE "ok"),
                               !.pckCrlRev = (IF collat = "leafRevoked" THEN "leaf" ELSE "none")]
  IN IF transit = "flipSigned" THEN {[base EXCEPT !.mut = r] : r \in SignedRegions} ELSE {base}
OptOfLevel(lvl) == [gc |-> lvl >= 1, cr |-> lvl = 2, now |-> "set", entry |-> "msg"]

VerifyAbstractionHolds ==
  \A transit \in SysTransits, trust \in SysTrusts, collat \in SysCollats, lvl \in SysLevels :
    \A ww \in WorldsOf(transit, trust, collat) :
      LET oo == OptOfLevel(lvl) ok == SysVerifyOk(transit, trust, lvl, collat) IN
        /\ (CodeVerdict(ww, oo) = "accept") = ok
        /\ Necessary(ww, oo) = ok
        /\ Honest(ww, oo) = ok

SysDevices == [good        |-> [rr |-> "r0",  qr |-> "r0", st |-> "s0",    ol |-> "exact", buf |-> "quote", len |-> "kept"],
               reportFails |-> [rr |-> "err", qr |-> "r0", st |-> "s0",    ol |-> "exact", buf |-> "quote", len |-> "kept"],
               quoteFails  |-> [rr |-> "r0",  qr |-> "r8", st |-> "s0",    ol |-> "exact", buf |-> "quote", len |-> "kept"],
               badStatus   |-> [rr |-> "r0",  qr |-> "r0", st |-> "error", ol |-> "exact", buf |-> "quote", len |-> "kept"],
               zeroLength  |-> [rr |-> "r0",  qr |-> "r0", st |-> "s0",    ol |-> "zero",  buf |-> "quote", len |-> "kept"]]
GuestAbstractionHolds ==
  \A d \in DOMAIN SysDevices : /\ SysDevices[d] \in G!Devices
                               /\ G!DeviceYieldsData(SysDevices[d]) = (d = "good")

\* tools/check is the relying party's half of the system behind a command line: it exits 0 exactly when the system would deliver the quote
CT == INSTANCE CheckTool WITH Budget <- 1, c <- 0, pc <- 0, exit <- 0
ToolAbstractionHolds ==
  \A quote \in {"valid", "forged"}, roots \in {"flagGood", "flagWrong", "configGood", "configWrong"}, fv \in {"absent", "match", "mismatch"},
     cv \in {"absent", "match", "mismatch"}, net \in {"off", "honest"} :
    LET cc == [CT!Base EXCEPT !.quote = quote, !.roots = roots, !.flag = fv, !.cfg = cv, !.net = net]
        effective == IF fv # "absent" THEN fv ELSE cv                       \* a flag, when given, overrides the config
        delivers == /\ SysVerifyOk(IF quote = "forged" THEN "flipSigned" ELSE "intact",
                                   IF roots \in {"flagGood", "configGood"} THEN "trusted" ELSE "otherRoot",
                                   IF net = "off" THEN 0 ELSE 1, "ok")
                    /\ effective # "mismatch"
    IN (CT!ExitSet(cc) = {0}) = delivers

\* tools/attest is the guest's half behind a command line: what it can write, tools/check can read (the two -outform values are -inform values
\* of the other tool, under the same names), and no accepted command line ends anywhere but in the guest client's quote call
AT == INSTANCE AttestTool WITH in <- "empty", inform <- "auto", outform <- "bin", out <- "stdout", flags <- "plain", pc <- "done", exit <- 1, created <- FALSE
GuestToolAbstractionHolds ==
  /\ \A f \in AT!Outforms \ {"bogus"} : /\ f \in CT!Informs \ {"bogus"}
                                       /\ CT!ExitSet([CT!Base EXCEPT !.inform = f]) = {0}         \* an honest quote in that format is accepted
  /\ \A i \in AT!Ins, f \in AT!Informs : AT!InputAccepted(i, f) => (f # "bogus" \/ i = "empty")

\* tools/extend leaves the decision about its request to the library: what ExtendTool says the library refuses is what Rtmr refuses
RT == INSTANCE Rtmr WITH Indices <- {}, DigestLens <- {}, Hashes <- {}, MaxCalls <- 0, InitStates <- {}, tsm <- <<>>, req <- 0, pc <- 0, scan <- 0, target <- 0,
                         calls <- 0, writes <- <<>>, result <- 0, hist <- <<>>, init <- 0
ET == INSTANCE ExtendTool WITH in <- "file", index <- "default", quiet <- FALSE, verbosity <- "default", tsm <- "absent", pc <- "done", exit <- 1, said <- "fatal"
ExtendToolAbstractionHolds ==
  \A i \in ET!Ins \ {"fileMissing", "directory"}, x \in ET!Indices \ {"notNumber"} :
    LET r == [kind |-> "log", index |-> ET!IndexValue(x), hash |-> "sha384", log |-> IF ET!LogEmpty(i) THEN "empty" ELSE "nonempty", dlen |-> 48, fault |-> "none"]
    IN RT!Valid(r) = ~ET!LibraryRefuses(i, x)

AbstractionsHold == VerifyAbstractionHolds /\ GuestAbstractionHolds /\ ToolAbstractionHolds /\ GuestToolAbstractionHolds /\ ExtendToolAbstractionHolds
=================================================================================
