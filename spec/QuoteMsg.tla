--------------------------------- MODULE QuoteMsg ---------------------------------
(***************************************************************************************)
(* Structurally arbitrary QuoteV4 messages (C09 second half, C10): every sub-message     *)
(* may be absent, every bytes field may have length 0 / n-1 / n+1, the RTMR list may     *)
(* have 0..5 entries, numeric fields may exceed their wire width, type fields may be      *)
(* wrong and the four size fields may disagree with the actual lengths.                  *)
(* Valid / RoundTrips say what CheckQuoteV4, the serialiser and the                       *)
(* serialise-then-parse round trip must do; no entry point may crash on any of them.      *)
(***************************************************************************************)
EXTENDS Integers, Sequences, FiniteSets, TLC

Parts == <<"quote", "header", "body", "signedData", "certData", "qeCertData", "qeReport", "authData", "pckChain">>
BytesFields == <<"qe_svn", "pce_svn", "qe_vendor_id", "user_data",
                 "tee_tcb_svn", "mr_seam", "mr_signer_seam", "seam_attributes", "td_attributes", "xfam", "mr_td", "mr_config_id",
                 "mr_owner", "mr_owner_config", "report_data", "rtmr0", "rtmr3",
                 "signature", "attestation_key",
                 "qe_cpu_svn", "qe_reserved1", "qe_attributes", "qe_mr_enclave", "qe_reserved2", "qe_mr_signer", "qe_reserved3", "qe_reserved4", "qe_report_data",
                 "qe_report_signature">>
LenDevs == <<"zero", "minus1", "plus1">>
Numerics == <<"version", "att_key_type", "cert_type", "pck_type", "auth_size", "isv_prod_id", "isv_svn">>   \* set to 2^16 (does not fit 2 bytes)
Types == <<"version3", "version5", "keyType3", "teeType0", "certType5", "pckType6">>
Sizes == <<"authSizePlus1", "pckSizePlus1", "pckSizeZero", "sdSizePlus1", "sdSizeZero", "certSizePlus1", "certSizeZero">>

SeqSet(s) == {s[i] : i \in DOMAIN s}
\* one deviation = [kind, what, how]
DevSet == {[kind |-> "none", what |-> "none", how |-> "none"]}
          \cup {[kind |-> "absent", what |-> p, how |-> "nil"] : p \in SeqSet(Parts)}
          \cup {[kind |-> "len", what |-> b, how |-> h] : b \in SeqSet(BytesFields), h \in SeqSet(LenDevs)}
          \cup {[kind |-> "rtmrs", what |-> "count", how |-> ToString(n)] : n \in {0, 1, 3, 5}}
          \cup {[kind |-> "wide", what |-> n, how |-> "65536"] : n \in SeqSet(Numerics)}
          \cup {[kind |-> "type", what |-> t, how |-> "wrong"] : t \in SeqSet(Types)}
          \cup {[kind |-> "size", what |-> z, how |-> "wrong"] : z \in SeqSet(Sizes)}
          \cup {[kind |-> "extra", what |-> "extra_bytes", how |-> h] : h \in {"some", "emptyNonNil"}}

CONSTANT PairWith   \* kinds of deviations that are additionally paired with every other deviation

NoDev == [kind |-> "none", what |-> "none", how |-> "none"]
MsgCases == {<<d, NoDev>> : d \in DevSet} \cup {<<d, e>> : d \in {x \in DevSet : x.kind \in PairWith}, e \in DevSet \ {NoDev}}

Has(c, pred(_)) == pred(c[1]) \/ pred(c[2])
\* abstract message of QuoteWire.CheckMsg from a case
IsStructural(d) == d.kind \in {"absent", "len", "rtmrs", "wide", "type"}
BreaksCheck(d) == \/ IsStructural(d)
                  \/ (d.kind = "size" /\ d.what \in {"authSizePlus1", "pckSizePlus1", "pckSizeZero"})   \* these two sizes are compared with the data
BreaksRoundTrip(d) == BreaksCheck(d) \/ d.kind = "size"        \* DEV: signed_data_size / certification size are not checked by CheckQuoteV4
Valid(c) == ~BreaksCheck(c[1]) /\ ~BreaksCheck(c[2])
RoundTrips(c) == ~BreaksRoundTrip(c[1]) /\ ~BreaksRoundTrip(c[2])

VARIABLES c, pc, check, serial, round
vars == <<c, pc, check, serial, round>>
Init == c \in MsgCases /\ pc = "check" /\ check = "none" /\ serial = "none" /\ round = "none"
CheckQuote == /\ pc = "check" /\ check' = (IF Valid(c) THEN "valid" ELSE "invalid") /\ pc' = "serialise"
              /\ UNCHANGED <<c, serial, round>>
Serialise == /\ pc = "serialise" /\ serial' = (IF Valid(c) THEN "bytes" ELSE "error")        \* the serialiser re-checks first
             /\ pc' = (IF Valid(c) THEN "parse" ELSE "done") /\ UNCHANGED <<c, check, round>>
ParseBack == /\ pc = "parse" /\ round' = (IF RoundTrips(c) THEN "same" ELSE "notSame") /\ pc' = "done"
             /\ UNCHANGED <<c, check, serial>>
Next == CheckQuote \/ Serialise \/ ParseBack
Spec == Init /\ [][Next]_vars

TypeOK == check \in {"none", "valid", "invalid"} /\ serial \in {"none", "bytes", "error"} /\ round \in {"none", "same", "notSame"}
\* serialisation succeeds exactly for the messages CheckQuoteV4 accepts; a successful round trip implies a well-formed message
SerialIffValid == pc = "done" => (serial = "bytes" <=> check = "valid")
RoundTripImpliesValid == round = "same" => check = "valid"
=================================================================================
