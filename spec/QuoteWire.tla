-------------------------------- MODULE QuoteWire --------------------------------
(***************************************************************************************)
(* The v4 TD quote wire format (C09, C10): layout table, the parser abi.QuoteToProto as  *)
(* a step machine over (total length, declared size and type fields), the structural     *)
(* predicate abi.CheckQuoteV4 over an abstract message, and the serialiser.              *)
(* The layout table is transcribed from Intel's TDX DCAP quote layout (v4), not from     *)
(* abi.go; the harness writes quotes from its own copy of the same table and the C09     *)
(* check refuses to run if the two tables differ.                                        *)
(***************************************************************************************)
EXTENDS Integers, Sequences, FiniteSets, TLC

(* ---- layout: [region, name, start, end) relative to the region ---------------------- *)
Layout == <<
  [region |-> "header", name |-> "version", start |-> 0, end |-> 2, kind |-> "u16"],
  [region |-> "header", name |-> "att_key_type", start |-> 2, end |-> 4, kind |-> "u16"],
  [region |-> "header", name |-> "tee_type", start |-> 4, end |-> 8, kind |-> "u32"],
  [region |-> "header", name |-> "pce_svn", start |-> 8, end |-> 10, kind |-> "bytes"],     \* reserved in Intel's v4 table; the
  [region |-> "header", name |-> "qe_svn", start |-> 10, end |-> 12, kind |-> "bytes"],    \* repository's naming is pinned here
  [region |-> "header", name |-> "qe_vendor_id", start |-> 12, end |-> 28, kind |-> "bytes"],
  [region |-> "header", name |-> "user_data", start |-> 28, end |-> 48, kind |-> "bytes"],
  [region |-> "body", name |-> "tee_tcb_svn", start |-> 0, end |-> 16, kind |-> "bytes"],
  [region |-> "body", name |-> "mr_seam", start |-> 16, end |-> 64, kind |-> "bytes"],
  [region |-> "body", name |-> "mr_signer_seam", start |-> 64, end |-> 112, kind |-> "bytes"],
  [region |-> "body", name |-> "seam_attributes", start |-> 112, end |-> 120, kind |-> "bytes"],
  [region |-> "body", name |-> "td_attributes", start |-> 120, end |-> 128, kind |-> "bytes"],
  [region |-> "body", name |-> "xfam", start |-> 128, end |-> 136, kind |-> "bytes"],
  [region |-> "body", name |-> "mr_td", start |-> 136, end |-> 184, kind |-> "bytes"],
  [region |-> "body", name |-> "mr_config_id", start |-> 184, end |-> 232, kind |-> "bytes"],
  [region |-> "body", name |-> "mr_owner", start |-> 232, end |-> 280, kind |-> "bytes"],
  [region |-> "body", name |-> "mr_owner_config", start |-> 280, end |-> 328, kind |-> "bytes"],
  [region |-> "body", name |-> "rtmr0", start |-> 328, end |-> 376, kind |-> "bytes"],
  [region |-> "body", name |-> "rtmr1", start |-> 376, end |-> 424, kind |-> "bytes"],
  [region |-> "body", name |-> "rtmr2", start |-> 424, end |-> 472, kind |-> "bytes"],
  [region |-> "body", name |-> "rtmr3", start |-> 472, end |-> 520, kind |-> "bytes"],
  [region |-> "body", name |-> "report_data", start |-> 520, end |-> 584, kind |-> "bytes"],
  [region |-> "qereport", name |-> "cpu_svn", start |-> 0, end |-> 16, kind |-> "bytes"],
  [region |-> "qereport", name |-> "misc_select", start |-> 16, end |-> 20, kind |-> "u32"],
  [region |-> "qereport", name |-> "reserved1", start |-> 20, end |-> 48, kind |-> "bytes"],
  [region |-> "qereport", name |-> "attributes", start |-> 48, end |-> 64, kind |-> "bytes"],
  [region |-> "qereport", name |-> "mr_enclave", start |-> 64, end |-> 96, kind |-> "bytes"],
  [region |-> "qereport", name |-> "reserved2", start |-> 96, end |-> 128, kind |-> "bytes"],
  [region |-> "qereport", name |-> "mr_signer", start |-> 128, end |-> 160, kind |-> "bytes"],
  [region |-> "qereport", name |-> "reserved3", start |-> 160, end |-> 256, kind |-> "bytes"],
  [region |-> "qereport", name |-> "isv_prod_id", start |-> 256, end |-> 258, kind |-> "u16"],
  [region |-> "qereport", name |-> "isv_svn", start |-> 258, end |-> 260, kind |-> "u16"],
  [region |-> "qereport", name |-> "reserved4", start |-> 260, end |-> 320, kind |-> "bytes"],
  [region |-> "qereport", name |-> "report_data", start |-> 320, end |-> 384, kind |-> "bytes"] >>

RegionSize == [header |-> 48, body |-> 584, qereport |-> 384]
\* the regions are tiled exactly by their fields (checked by TLC as an ASSUME)
Tiled(r) == LET fs == SelectSeq(Layout, LAMBDA f : f.region = r)
            IN /\ fs[1].start = 0 /\ fs[Len(fs)].end = RegionSize[r]
               /\ \A i \in 1..(Len(fs) - 1) : fs[i].end = fs[i + 1].start
ASSUME Tiled("header") /\ Tiled("body") /\ Tiled("qereport")

\* fixed offsets of the whole quote
OffSdSize == 632       \* u32 signed_data_size
OffSigned == 636       \* signature(64) key(64) certType(u16) certSize(u32) = 134 bytes, then the certification data
SignedFixed == 134
CertFixed == 450       \* QE report(384) QE report signature(64) auth size(u16)
PckFixed == 6          \* type(u16) size(u32)
Huge == 1000000000     \* stands for 2^32 - 1: "far too big" (kept well inside TLC's 32-bit integers)

(* ---- declared fields of a byte string -------------------------------------------- *)
\* f = [len, version, keyType, teeType, sd, certType, certSize, auth, pckType, pckSize]

\* C09, declaratively: the byte string follows the layout iff some decomposition into
\* auth data A, chain C and extra bytes E makes every size and type field consistent
FollowsLayout(f) ==
  /\ f.version = 4 /\ f.keyType = 2 /\ f.teeType = 129
  /\ f.certType = 6 /\ f.pckType = 5
  /\ f.auth >= 0 /\ f.pckSize >= 0
  /\ f.certSize = CertFixed + f.auth + PckFixed + f.pckSize
  /\ f.sd = SignedFixed + f.certSize
  /\ f.len >= OffSigned + f.sd                      \* the rest are extra bytes

(* ---- the parser as coded: guards in reading order ("need n, have m") --------------- *)
ParseStages == <<"version", "minsize", "header", "sdsize", "signedFixed", "certHeader", "certFixed", "auth", "pckHeader", "pckSize">>
\* every guard is an explicit reject branch after the F1 repair; before it the stages marked (F1) sliced without a guard
ParseGuard(st, f) ==
  CASE st = "version"     -> f.len >= 2 /\ f.version = 4
    [] st = "minsize"     -> f.len >= 1020
    [] st = "header"      -> f.keyType = 2 /\ f.teeType = 129
    [] st = "sdsize"      -> f.sd <= f.len - OffSigned
    [] st = "signedFixed" -> f.sd >= SignedFixed                                   \* (F1)
    [] st = "certHeader"  -> f.certSize = f.sd - SignedFixed /\ f.certType = 6
    [] st = "certFixed"   -> f.certSize >= CertFixed                               \* (F1)
    [] st = "auth"        -> f.auth <= f.certSize - CertFixed                      \* (F1)
    [] st = "pckHeader"   -> f.certSize - CertFixed - f.auth >= PckFixed /\ f.pckType = 5   \* (F1)
    [] st = "pckSize"     -> f.pckSize = f.certSize - CertFixed - f.auth - PckFixed

RECURSIVE ParseFrom(_, _)
ParseFrom(i, f) == IF i > Len(ParseStages) THEN "accept"
                   ELSE IF ParseGuard(ParseStages[i], f) THEN ParseFrom(i + 1, f) ELSE "reject"
Parse(f) == ParseFrom(1, f)

(* ---- abstract messages and CheckQuoteV4 -------------------------------------------- *)
\* presence of each sub-message, length class of each bytes field relative to its required size, numeric classes
MsgParts == {"header", "body", "signedData", "certData", "qeCertData", "qeReport", "authData", "pckChain"}
\* m = [absent : SUBSET MsgParts, badLen : field name or "none", rtmrs : 0..5, version, keyType, teeType, certType, pckType,
\*      authConsistent, pckConsistent, sdConsistent, certConsistent, wide : name of a numeric field >= 2^16 or "none"]
CheckMsg(m) ==
  /\ m.absent = {} /\ m.badLen = "none" /\ m.rtmrs = 4 /\ m.wide = "none"
  /\ m.version = 4 /\ m.keyType = 2 /\ m.teeType = 129 /\ m.certType = 6 /\ m.pckType = 5
  /\ m.authConsistent /\ m.pckConsistent
\* DEV: CheckQuoteV4 does not compare signed_data_size and the certification data size with the actual lengths
WellFormed(m) == CheckMsg(m) /\ m.sdConsistent /\ m.certConsistent
\* serialising a checked message writes the declared sizes verbatim; parsing the result gives the message back iff they are consistent
SerialiseOutcome(m) == IF CheckMsg(m) THEN "bytes" ELSE "error"
RoundTripsMsg(m) == WellFormed(m)

(* ---- the case space explored by TLC -------------------------------------------------- *)
CONSTANTS AuthLens,    \* actual auth-data lengths, e.g. {0, 2}
          ChainLen,    \* actual chain length (symbolic small value in the model)
          ExtraLens    \* actual extra-byte counts, e.g. {0, 3}

Exact(a, e) == [len |-> OffSigned + SignedFixed + CertFixed + a + PckFixed + ChainLen + e,
                version |-> 4, keyType |-> 2, teeType |-> 129,
                sd |-> SignedFixed + CertFixed + a + PckFixed + ChainLen, certType |-> 6,
                certSize |-> CertFixed + a + PckFixed + ChainLen, auth |-> a, pckType |-> 5, pckSize |-> ChainLen]

\* deviations of one field from its exact value
Devs(field, x, f) ==
  CASE field = "version"  -> {3, 5, 260}
    [] field = "keyType"  -> {3, 0, 258}                       \* 258 = 0x0102, 260 = 0x0104, ...: the right value in the low byte only
    [] field = "teeType"  -> {0, 128, 33153, 65665, 16777345}  \* 0x8181, 0x00010081, 0x01000081: the right value in the low byte(s) only
    [] field = "certType" -> {5, 0, 7, 262}
    [] field = "pckType"  -> {6, 0, 4, 261}
    [] field = "sd"       -> {0, 63, 64, 127, 128, 133, 134, x - 1, x + 1, f.len - OffSigned, f.len - OffSigned + 1, Huge} \ {x}
    [] field = "certSize" -> {0, 449, 450, x - 1, x + 1, Huge} \ {x}
    [] field = "auth"     -> {0, x + 1, x + ChainLen + 1, x + ChainLen + PckFixed, x + ChainLen + PckFixed + 1, 65535} \ {x}
    [] field = "pckSize"  -> {0, x - 1, x + 1, Huge} \ {x}
    [] field = "len"      -> {0, 1, 2, 47, 48, 631, 632, 635, 636, 1019, 1020, x - 1, OffSigned + SignedFixed, OffSigned + SignedFixed - 1} \ {x}
Fields == {"len", "version", "keyType", "teeType", "sd", "certType", "certSize", "auth", "pckType", "pckSize"}

NonNeg(S) == {v \in S : v >= 0}
Single(base) == UNION {{[base EXCEPT ![fd] = v] : v \in NonNeg(Devs(fd, base[fd], base))} : fd \in Fields}
Double(base) == UNION {Single(s) : s \in Single(base)}
\* consistent re-decompositions: the same bytes read with one more / fewer byte of chain, taken from / given to the extra bytes
Shifted(base) == {[base EXCEPT !.sd = @ + d, !.certSize = @ + d, !.pckSize = @ + d] : d \in {-1, 1}}

CONSTANT Budget   \* 1: single deviations, 2: also pairs
CasesOf(a, e) == {Exact(a, e)} \cup Single(Exact(a, e)) \cup Shifted(Exact(a, e)) \cup (IF Budget >= 2 THEN Double(Exact(a, e)) ELSE {})

VARIABLES f, a, e, stage, outcome
vars == <<f, a, e, stage, outcome>>
Init == a \in AuthLens /\ e \in ExtraLens /\ f \in CasesOf(a, e) /\ stage = 1 /\ outcome = "none"
Guard == /\ outcome = "none" /\ stage <= Len(ParseStages)
         /\ IF ParseGuard(ParseStages[stage], f) THEN stage' = stage + 1 /\ outcome' = outcome
            ELSE outcome' = "reject" /\ stage' = stage
         /\ UNCHANGED <<f, a, e>>
Accept == /\ outcome = "none" /\ stage = Len(ParseStages) + 1 /\ outcome' = "accept" /\ UNCHANGED <<f, a, e, stage>>
Next == Guard \/ Accept
Spec == Init /\ [][Next]_vars

TypeOK == outcome \in {"none", "accept", "reject"}          \* there is no "panic" outcome
AcceptIffLayout == outcome # "none" => (outcome = "accept" <=> FollowsLayout(f))
MachineIsFunction == outcome # "none" => outcome = Parse(f)
=================================================================================
