------------------------------ MODULE SharedQuote_MC ------------------------------
EXTENDS SharedQuote, Json
Origins == {"parsed", "built", "protobuf"}
\* one case per (multiset of concurrent call kinds) for the race runs, and per (kind, origin) for the footprint runs
ExportCase == (\A c \in Calls : pcs[c] = 1) =>
                 PrintT(<<"CASE", ToJson([kinds |-> [c \in Calls |-> kinds[c]]])>>)
=================================================================================
