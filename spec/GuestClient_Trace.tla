---------------------------- MODULE GuestClient_Trace ----------------------------
(* Recorded executions of client.GetRawQuote / GetQuote with a scripted device / provider *)
(* must be behaviours of GuestClient: every ioctl is logged with the facts the property   *)
(* names (caller's report data handed over unchanged; device's TD report, InLen, Version, *)
(* Length handed to the quote request; returned bytes = first OutLen bytes).              *)
EXTENDS GuestClient, Json

CONSTANTS TraceFile
Trace == ndJsonDeserialize(TraceFile)
VARIABLES l
tvars == <<vars, l>>

Mark(n) == TLCSet(42, IF TLCGet(42) > n THEN TLCGet(42) ELSE n)
IsEvent(e) == l <= Len(Trace) /\ Trace[l].ev = e /\ l' = l + 1

TInit == /\ via = "device" /\ dev = GoodDevice /\ prov = "bytes" /\ prior = "none"
         /\ pc = "done" /\ ioctls = <<>> /\ opened = FALSE /\ result = "idle" /\ l = 1 /\ TLCSet(42, 1)

TCall == /\ IsEvent("Call") /\ pc = "done"
         /\ via' = Trace[l].input.via /\ dev' = Trace[l].input.dev /\ prov' = Trace[l].input.prov
         /\ prior' = Trace[l].input.prior
         /\ pc' = (IF Trace[l].input.prior # "none" THEN "prior" ELSE "start") /\ ioctls' = <<>> /\ opened' = FALSE /\ result' = "none"

\* the earlier call returned exactly the device's quote
TPrior == /\ IsEvent("Prior") /\ PriorCall
          /\ IF prior = "provUnsupported" THEN Trace[l].kind = "error"         \* no device in the test environment
             ELSE Trace[l].kind = "data" /\ Trace[l].dataOk

Silent == /\ l <= Len(Trace) /\ UNCHANGED l /\ (Start \/ AskSupported)

TIoctl == /\ IsEvent("Ioctl")
          /\ \/ /\ Trace[l].cmd = "report" /\ SendReport
                /\ Trace[l].cmdOk /\ Trace[l].rdOk                       \* the caller's 64 bytes, unchanged
             \/ /\ Trace[l].cmd = "quote" /\ SendQuote
                /\ Trace[l].cmdOk /\ Trace[l].reportOk                   \* the device's 1024-byte TD report
                /\ Trace[l].inLen = 1024 /\ Trace[l].version = 1 /\ Trace[l].length = 16384
                /\ Trace[l].statusIn = 0 /\ Trace[l].outLenIn = 0

\* the fall-back's attempt to open the configured device path; its result is returned next
TOpen == /\ IsEvent("Open") /\ pc = "fallback"
         /\ opened' = TRUE /\ pc' = "fail"
         /\ UNCHANGED <<via, dev, prov, prior, ioctls, result>>

TReturn == /\ IsEvent("Return")
           /\ \/ ReturnData \/ ReturnErr \/ ProviderQuote
              \/ (prov = "unsupportedNoDevice" /\ Fallback)    \* opening a missing path cannot be observed from outside
           /\ result' = Trace[l].kind                                    \* data | error | both; "panic" matches nothing
           /\ (result' \in {"data", "both"} => Trace[l].dataOk)          \* exactly the first OutLen bytes / the provider's bytes
           /\ Trace[l].parsedOk                                          \* GetQuote = Parse o GetRawQuote

\* the high-water mark is advanced only by a step that satisfied every conjunct of its action
TNext == (TCall \/ TPrior \/ Silent \/ TIoctl \/ TOpen \/ TReturn) /\ Mark(l')
TSpec == TInit /\ [][TNext]_tvars
TraceAccepted == PrintT(<<"HWM", TLCGet(42)>>) /\ TLCGet(42) = Len(Trace) + 1
=================================================================================
