----------------------------- MODULE TcbLevels_Trace -----------------------------
(* Recorded verdicts of verify.TdxQuote (collateral on) and results of verify.SupportedTcbLevelsFromCollateral  *)
(* on generated platforms / signed TCB Infos / QE identities realising a TcbLevels case: the verdict must be the *)
(* declarative first-match result, the reporting API must return a level or an error as specified.               *)
EXTENDS TcbLevels, Json
CONSTANTS TraceFile
Trace == ndJsonDeserialize(TraceFile)
VARIABLES l
tvars == <<vars, l>>
Mark(k) == TLCSet(42, IF TLCGet(42) > k THEN TLCGet(42) ELSE k)
IsEvent(ev) == l <= Len(Trace) /\ Trace[l].ev = ev /\ l' = l + 1
TInit == /\ kind = "qe" /\ plat = <<>> /\ svn1 = 0 /\ mod = [id |-> "absent", lv |-> <<>>] /\ qe = <<>>
         /\ pc = "done" /\ i = 1 /\ found = 0 /\ modFound = 0 /\ result = "idle" /\ l = 1 /\ TLCSet(42, 1)
TCall == /\ IsEvent("Call") /\ pc = "done"
         /\ kind' = Trace[l].input.kind /\ plat' = Trace[l].input.plat /\ svn1' = Trace[l].input.svn1 /\ mod' = Trace[l].input.mod /\ qe' = Trace[l].input.qe
         /\ pc' = "scan" /\ i' = 1 /\ found' = 0 /\ modFound' = 0 /\ result' = "none"
Silent == /\ l <= Len(Trace) /\ UNCHANGED l /\ Next
TReturn == /\ IsEvent("Return") /\ Done /\ result \in {"accept", "reject"}
           /\ Trace[l].verdict = (IF kind = "tcb" THEN ExpectedTcb(plat, svn1, mod) ELSE ExpectedQe(qe))
           /\ (kind = "tcb" => Trace[l].report = ExpectedReport(plat, svn1, mod))
           /\ (kind = "tcb" /\ Trace[l].report = "level" /\ ExpectedTcb(plat, svn1, mod) = "accept" => Trace[l].reportStatus = "UpToDate")
           /\ result' = "returned" /\ UNCHANGED <<kind, plat, svn1, mod, qe, pc, i, found, modFound>>
TNext == (TCall \/ Silent \/ TReturn) /\ Mark(l')
TSpec == TInit /\ [][TNext]_tvars
TraceAccepted == PrintT(<<"HWM", TLCGet(42)>>) /\ TLCGet(42) = Len(Trace) + 1
=================================================================================
