----------------------------- MODULE GuestClient_MC -----------------------------
EXTENDS GuestClient, Json
ExportCase == (pc = "start") => PrintT(<<"CASE", ToJson([via |-> via, dev |-> dev, prov |-> prov, prior |-> prior])>>)
=================================================================================
