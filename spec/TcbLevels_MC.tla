------------------------------ MODULE TcbLevels_MC ------------------------------
EXTENDS TcbLevels, Json
ExportCase == (pc = "scan" /\ i = 1 /\ found = 0) => PrintT(<<"CASE", ToJson([kind |-> kind, plat |-> plat, svn1 |-> svn1, mod |-> mod, qe |-> qe])>>)
=================================================================================
