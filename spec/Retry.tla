---------------------------------- MODULE Retry ----------------------------------
(***************************************************************************************)
(* trust.RetryHTTPSGetter.Get (C20): retry loop around a wrapped getter with a doubling  *)
(* delay capped by MaxRetryDelay and a deadline Timeout after the call.  Integer time.   *)
(* The wrapped getter is the environment: it fails Fails times and then succeeds         *)
(* (Fails = -1: fails forever); an attempt takes 0..DurMax time units.                   *)
(*   StartAttempt  - call the wrapped getter                                             *)
(*   Finish(d)     - it returns after d; on failure the next delay is min(2*delay, Max)  *)
(*   TimerFires    - the delay elapsed before the deadline: retry                        *)
(*   DeadlineFires - the deadline passed while waiting: give up with an error            *)
(* When timer and deadline are both due the Go select picks either; both are modelled.   *)
(***************************************************************************************)
EXTENDS Integers, Sequences, TLC

CONSTANTS Timeout,    \* deadline, time units after the call
          Max,        \* MaxRetryDelay
          Init2,      \* the code's initial delay (2 s) in time units
          DurMax,     \* longest attempt
          FailsSet    \* explored values of Fails

Min(a, b) == IF a < b THEN a ELSE b
MaxOf(a, b) == IF a > b THEN a ELSE b
\* the delay scheduled after the i-th failure
NextDelay(d) == Min(2 * d, Max)

VARIABLES fails, now, delay, n, phase, waitFrom, result, waits
vars == <<fails, now, delay, n, phase, waitFrom, result, waits>>

Init == /\ fails \in FailsSet
        /\ now = 0 /\ delay = Init2 /\ n = 0 /\ phase = "ready" /\ waitFrom = 0
        /\ result = "none" /\ waits = <<>>

AttemptFails(i) == fails = -1 \/ i <= fails

StartAttempt == /\ phase = "ready"
                /\ n' = n + 1 /\ phase' = "inflight"
                /\ UNCHANGED <<fails, now, delay, waitFrom, result, waits>>

Finish(d) == /\ phase = "inflight"
             /\ now' = now + d
             /\ IF AttemptFails(n)
                  THEN /\ delay' = NextDelay(delay) /\ phase' = "waiting" /\ waitFrom' = now'
                       /\ UNCHANGED result
                  ELSE /\ result' = "ok" /\ phase' = "done"          \* first success: returned as is, no further attempt
                       /\ UNCHANGED <<delay, waitFrom>>
             /\ UNCHANGED <<fails, n, waits>>

TimerDue    == waitFrom + delay
TimerFires == /\ phase = "waiting" /\ TimerDue <= Timeout             \* due before (or exactly at) the deadline
              /\ now' = MaxOf(now, TimerDue) /\ phase' = "ready"
              /\ waits' = Append(waits, delay)
              /\ UNCHANGED <<fails, delay, n, waitFrom, result>>

\* also possible when the deadline had already passed when the wait began and the delay is zero: both channels are ready
TimerFiresLate == /\ phase = "waiting" /\ TimerDue > Timeout /\ delay = 0
                  /\ phase' = "ready" /\ waits' = Append(waits, 0)
                  /\ UNCHANGED <<fails, now, delay, n, waitFrom, result>>

DeadlineFires == /\ phase = "waiting" /\ TimerDue >= Timeout
                 /\ now' = MaxOf(now, Timeout) /\ result' = "error" /\ phase' = "done"
                 /\ UNCHANGED <<fails, delay, n, waitFrom, waits>>

Next == StartAttempt \/ (\E d \in 0..DurMax : Finish(d)) \/ TimerFires \/ TimerFiresLate \/ DeadlineFires
Spec == Init /\ [][Next]_vars
\* the scheduler eventually lets the deadline branch win a tie (Go's select is random, not adversarial)
FairSpec == Spec /\ WF_vars(StartAttempt) /\ WF_vars(\E d \in 0..DurMax : Finish(d)) /\ WF_vars(TimerFires) /\ SF_vars(DeadlineFires)

(* ------------------------------ the property on the model --------------------------- *)
TypeOK == phase \in {"ready", "inflight", "waiting", "done"} /\ result \in {"none", "ok", "error"}
FirstSuccessReturned == result = "ok" => (fails >= 0 /\ n = fails + 1)
NoAttemptAfterSuccess == (fails >= 0) => n <= fails + 1
ErrorOnlyAfterDeadline == result = "error" => now >= Timeout
WaitsBounded == \A i \in DOMAIN waits : waits[i] <= Max
\* no busy loop: the i-th wait is exactly the i-th scheduled delay (initial delay doubled i times, capped), never shorter
RECURSIVE ScheduledDelay(_)
ScheduledDelay(i) == IF i = 1 THEN NextDelay(Init2) ELSE NextDelay(ScheduledDelay(i - 1))
WaitsScheduled == \A i \in DOMAIN waits : waits[i] = ScheduledDelay(i)
\* gives up no later than the deadline plus one (longest) attempt; with Max = 0 the schedule is "retry at once" and ties
\* between the ready timer and the expired deadline are broken at random, so only termination under fairness is claimed there
GiveUpBounded == (result = "error" /\ Max > 0) => now <= Timeout + DurMax
Bounded == n <= 8
Terminates == <>(phase = "done")
=================================================================================
