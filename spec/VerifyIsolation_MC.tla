----------------------------- MODULE VerifyIsolation_MC -----------------------------
EXTENDS VerifyIsolation, Json
\* one concurrent scenario per region that is altered after signing
Regions == {"body", "ak", "qeReport", "authData", "sig", "qeSig", "header"}
ExportCase == (\A c \in Calls : pc[c] = "serialise") /\ (\A c \in Calls : input[c] = "genuine")
                 => \A r \in Regions : PrintT(<<"CASE", ToJson([tamper |-> r])>>)
=================================================================================
