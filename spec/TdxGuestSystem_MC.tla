---------------------------- MODULE TdxGuestSystem_MC ----------------------------
EXTENDS TdxGuestSystem, Json
ExportCase == (pc = "guest") => PrintT(<<"CASE", ToJson([dev |-> dev, transit |-> transit, trust |-> trust, lvl |-> lvl, collat |-> collat,
                                                          pol |-> pol, consumer |-> consumer, logfit |-> logfit])>>)
=================================================================================
