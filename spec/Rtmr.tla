---------------------------------- MODULE Rtmr ----------------------------------
(***************************************************************************************)
(* rtmr.ExtendDigestClient / ExtendEventLogClient of go-tdx-guest on top of             *)
(* go-configfs-tsm (C17).  The TSM is a sequence of entries (directories under          *)
(* tsm/rtmrs); an entry is bound to a hardware index once its "index" attribute is      *)
(* written and extends its register whenever "digest" is written.                       *)
(* One request = validation, then the sub-steps the code performs:                      *)
(*   ReadDir -> ReadIndex(entry)* -> [MkdirTemp -> WriteIndex] -> WriteDigest           *)
(* Digests are identified by the number of the call that supplied them.                 *)
(***************************************************************************************)
EXTENDS Integers, Sequences, FiniteSets, TLC

CONSTANTS Indices,     \* request indices explored, e.g. {-1, 0, 1, 2, 3, 4, 5, 2147483647}
          DigestLens,  \* digest lengths explored, e.g. {0, 47, 48, 49, 64}
          Hashes,      \* hash algorithms of event-log requests, e.g. {"sha384", "sha256", "sha512"}
          MaxCalls,    \* length of the histories
          InitStates   \* names of the initial TSM states

Unbound == -1
\* fault: the TSM write operation that fails during this call if it is reached (an environment fault; "none" in the model-checked histories,
\* any of them in recorded ones)
NoReq == [kind |-> "idle", index |-> 0, dlen |-> 0, hash |-> "none", log |-> "none", fault |-> "none"]
DigestReqs == [kind : {"digest"}, index : Indices, dlen : DigestLens, hash : {"none"}, log : {"none"}, fault : {"none"}]
LogReqs    == [kind : {"log"}, index : Indices, dlen : {48}, hash : Hashes, log : {"empty", "nonempty"}, fault : {"none"}]
Requests   == DigestReqs \cup LogReqs

\* C17, first sentence: the requests that must be refused
Valid(r) == /\ r.index \in 0..3
            /\ (r.kind = "digest" => r.dlen = 48)
            /\ (r.kind = "log" => r.hash = "sha384" /\ r.log # "empty")          \* "nonempty", or a stated length ("len65536", ...)

InitTsm(s) == CASE s = "empty"     -> <<>>
                [] s = "unrelated" -> <<[idx |-> 2, chain |-> <<>>]>>          \* another register already has an entry
                [] s = "unbound"   -> <<[idx |-> Unbound, chain |-> <<>>]>>    \* a directory whose index was never written
                [] s = "bound0"    -> <<[idx |-> 0, chain |-> <<>>]>>          \* register 0 already has an entry
                [] s = "two"       -> <<[idx |-> 3, chain |-> <<>>], [idx |-> 1, chain |-> <<>>]>>

VARIABLES tsm,      \* sequence of entries
          req,      \* current request (or NoReq)
          pc, scan, target,
          calls,    \* number of calls started
          writes,   \* write operations of the current call: sequence of [op, entry, ...]
          result,   \* result of the last call
          hist,     \* history of requests (for case export)
          init
vars == <<tsm, req, pc, scan, target, calls, writes, result, hist, init>>

Init == /\ init \in InitStates /\ tsm = InitTsm(init)
        /\ req = NoReq /\ pc = "idle" /\ scan = 0 /\ target = 0 /\ calls = 0
        /\ writes = <<>> /\ result = "none" /\ hist = <<>>

Call(r) == /\ pc = "idle" /\ calls < MaxCalls
           /\ req' = r /\ calls' = calls + 1 /\ hist' = Append(hist, r)
           /\ writes' = <<>> /\ result' = "none"
           /\ pc' = "validate" /\ UNCHANGED <<tsm, scan, target, init>>

Validate == /\ pc = "validate"
            /\ IF Valid(req) THEN pc' = "readdir" /\ result' = result
               ELSE pc' = "idle" /\ result' = "error"
            /\ UNCHANGED <<tsm, req, scan, target, calls, writes, hist, init>>

ReadDir == /\ pc = "readdir" /\ scan' = 1 /\ pc' = "scan"
           /\ UNCHANGED <<tsm, req, target, calls, writes, result, hist, init>>

\* read the index attribute of entry `scan`; stop at the first entry bound to the requested index
ReadIndex == /\ pc = "scan" /\ scan <= Len(tsm)
             /\ IF tsm[scan].idx = req.index THEN target' = scan /\ pc' = "extend" /\ scan' = scan
                ELSE scan' = scan + 1 /\ UNCHANGED <<target, pc>>
             /\ UNCHANGED <<tsm, req, calls, writes, result, hist, init>>

NoneBound == /\ pc = "scan" /\ scan > Len(tsm) /\ pc' = "mkdir"
             /\ UNCHANGED <<tsm, req, scan, target, calls, writes, result, hist, init>>

\* a failing TSM operation ends the call with an error; what was written before it stays (a directory, possibly bound), nothing is extended
Fails(op) == /\ req.fault = op /\ result' = "error" /\ pc' = "idle"
             /\ UNCHANGED <<tsm, req, scan, target, calls, writes, hist, init>>

MkdirTemp == /\ pc = "mkdir"
             /\ \/ Fails("mkdir")
                \/ /\ req.fault # "mkdir"
                   /\ tsm' = Append(tsm, [idx |-> Unbound, chain |-> <<>>])
                   /\ target' = Len(tsm) + 1
                   /\ writes' = Append(writes, [op |-> "mkdir", entry |-> Len(tsm) + 1])
                   /\ pc' = "bind" /\ UNCHANGED <<req, scan, calls, result, hist, init>>

WriteIndex == /\ pc = "bind"
              /\ \/ Fails("index")
                 \/ /\ req.fault # "index"
                    /\ tsm' = [tsm EXCEPT ![target].idx = req.index]
                    /\ writes' = Append(writes, [op |-> "index", entry |-> target])
                    /\ pc' = "extend" /\ UNCHANGED <<req, scan, target, calls, result, hist, init>>

\* "digestLate": the digest write takes effect and is then reported as failed (EBUSY after the fact): the register was extended once,
\* the call returns the error, and nothing is written again
WriteDigest == /\ pc = "extend"
               /\ \/ Fails("digest")
                  \/ /\ req.fault = "digestLate"
                     /\ tsm' = [tsm EXCEPT ![target].chain = Append(@, calls)]
                     /\ writes' = Append(writes, [op |-> "digest", entry |-> target])
                     /\ result' = "error" /\ pc' = "idle"
                     /\ UNCHANGED <<req, scan, target, calls, hist, init>>
                  \/ /\ req.fault \notin {"digest", "digestLate"}
                     /\ tsm' = [tsm EXCEPT ![target].chain = Append(@, calls)]     \* the digest of call number `calls`
                     /\ writes' = Append(writes, [op |-> "digest", entry |-> target])
                     /\ result' = "ok" /\ pc' = "idle"
                     /\ UNCHANGED <<req, scan, target, calls, hist, init>>

Next == (\E r \in Requests : Call(r)) \/ Validate \/ ReadDir \/ ReadIndex \/ NoneBound \/ MkdirTemp \/ WriteIndex \/ WriteDigest
Spec == Init /\ [][Next]_vars

(* ------------------------------ the property on the model --------------------------- *)
Idle == pc = "idle"
\* register i = extend chain of the entries bound to i (at most one entry per index)
Register(i) == LET es == {k \in DOMAIN tsm : tsm[k].idx = i}
               IN IF es = {} THEN <<>> ELSE tsm[CHOOSE k \in es : TRUE].chain
AcceptedFor(i) == SelectSeq([k \in DOMAIN hist |-> IF Valid(hist[k]) /\ hist[k].index = i THEN k ELSE 0], LAMBDA x : x # 0)

RefusedWritesNothing == (Idle /\ calls > 0 /\ ~Valid(req)) => (result = "error" /\ writes = <<>>)
OneEntryPerIndex == \A a, b \in DOMAIN tsm : (tsm[a].idx = tsm[b].idx /\ tsm[a].idx # Unbound) => a = b
ExactlyOneExtend == (Idle /\ calls > 0 /\ Valid(req) /\ req.fault = "none") =>
                       /\ result = "ok"
                       /\ Len(SelectSeq(writes, LAMBDA x : x.op = "digest")) = 1
                       /\ writes[Len(writes)].op = "digest" /\ tsm[writes[Len(writes)].entry].idx = req.index
                       /\ Len(writes) \in {1, 3}
RegistersAreChains == (Idle /\ \A k \in DOMAIN hist : hist[k].fault = "none") => \A i \in 0..3 : Register(i) = AcceptedFor(i)
\* a call cut short by a TSM fault returns an error and extends nothing
FaultedExtendsNothing == (Idle /\ calls > 0 /\ result = "error") => Len(SelectSeq(writes, LAMBDA x : x.op = "digest")) = (IF req.fault = "digestLate" THEN 1 ELSE 0)
NothingElseBound == \A k \in DOMAIN tsm : tsm[k].idx \in (0..3) \cup {Unbound}
=================================================================================
