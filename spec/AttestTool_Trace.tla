----------------------------- MODULE AttestTool_Trace -----------------------------
(* Recorded runs of the real tools/attest binary (built from the tree under test): exit status, whether the output file exists afterwards, *)
(* and which stage the FATAL line belongs to.                                                                                           *)
EXTENDS AttestTool, Json
CONSTANTS TraceFile
Trace == ndJsonDeserialize(TraceFile)
VARIABLES l
tvars == <<vars, l>>
Mark(k) == TLCSet(42, IF TLCGet(42) > k THEN TLCGet(42) ELSE k)
IsEvent(ev) == l <= Len(Trace) /\ Trace[l].ev = ev /\ l' = l + 1
TInit == in = "empty" /\ inform = "auto" /\ outform = "bin" /\ out = "stdout" /\ pc = "done" /\ exit = 1 /\ created = FALSE /\ l = 1 /\ TLCSet(42, 1)
TCall == /\ IsEvent("Call") /\ pc = "done"
         /\ in' = Trace[l].input.in /\ inform' = Trace[l].input.inform /\ outform' = Trace[l].input.outform /\ out' = Trace[l].input.out
         /\ pc' = "parse" /\ exit' = -1 /\ created' = FALSE
Silent == /\ l <= Len(Trace) /\ UNCHANGED l /\ Next
\* the stage at which the model's run ended, read off its state
EndStage == IF ~InputAccepted(in, inform) THEN "parse" ELSE IF outform = "bogus" THEN "outform" ELSE IF out = "dirMissing" THEN "open" ELSE "quote"
TReturn == /\ IsEvent("Return") /\ pc = "done" /\ exit = 1
           /\ Trace[l].exit = 1 /\ ~Trace[l].crash /\ Trace[l].fatalLine
           /\ Trace[l].created = created
           /\ Trace[l].stage = EndStage
           /\ exit' = 2 /\ UNCHANGED <<in, inform, outform, out, pc, created>>
TNext == (TCall \/ Silent \/ TReturn) /\ Mark(l')
TSpec == TInit /\ [][TNext]_tvars
TraceAccepted == PrintT(<<"HWM", TLCGet(42)>>) /\ TLCGet(42) = Len(Trace) + 1
=================================================================================
