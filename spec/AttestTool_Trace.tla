----------------------------- MODULE AttestTool_Trace -----------------------------
(* Recorded runs of the real tools/attest binary (built from the tree under test): exit status, whether the output file exists afterwards, *)
(* and which stage the FATAL line belongs to.                                                                                           *)
EXTENDS AttestTool, Json
CONSTANTS TraceFile
Trace == ndJsonDeserialize(TraceFile)
VARIABLES l
tvars == <<vars, l>>
Mark(k) == TLCSet(42, IF TLCGet(42) > k THEN TLCGet(42) ELSE k)
IsEvent(ev) == l <= Len(Trace) /\ Trace[l].ev = ev /\ l' = l + 1
TInit == in = "empty" /\ inform = "auto" /\ outform = "bin" /\ out = "stdout" /\ flags = "plain" /\ pc = "done" /\ exit = 1 /\ created = FALSE /\ l = 1 /\ TLCSet(42, 1)
TCall == /\ IsEvent("Call") /\ pc = "done"
         /\ in' = Trace[l].input.in /\ inform' = Trace[l].input.inform /\ outform' = Trace[l].input.outform /\ out' = Trace[l].input.out /\ flags' = Trace[l].input.flags
         /\ pc' = "flags" /\ exit' = -1 /\ created' = FALSE
Silent == /\ l <= Len(Trace) /\ UNCHANGED l /\ Next
\* the stage at which the model's run ended, read off its state
EndStage == IF FlagsRefused THEN "flags" ELSE IF ~InputAccepted(in, inform) THEN "parse" ELSE IF outform = "bogus" THEN "outform" ELSE IF out = "dirMissing" THEN "open" ELSE "quote"
TReturn == /\ IsEvent("Return") /\ pc = "done" /\ exit \in {1, 2}
           /\ Trace[l].exit = exit /\ ~Trace[l].crash
           /\ Trace[l].fatalLine = (exit = 1) /\ Trace[l].usage = (exit = 2)      \* one FATAL line, or the flag package's usage text
           /\ Trace[l].created = created
           /\ Trace[l].stage = EndStage
           /\ exit' = 3 /\ UNCHANGED <<in, inform, outform, out, flags, pc, created>>
TNext == (TCall \/ Silent \/ TReturn) /\ Mark(l')
TSpec == TInit /\ [][TNext]_tvars
TraceAccepted == PrintT(<<"HWM", TLCGet(42)>>) /\ TLCGet(42) = Len(Trace) + 1
=================================================================================
