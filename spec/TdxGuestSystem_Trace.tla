--------------------------- MODULE TdxGuestSystem_Trace ---------------------------
(* End-to-end runs through the public APIs of all packages: scripted device -> client.GetRawQuote -> (transit) ->     *)
(* abi.QuoteToProto -> verify.TdxQuote -> validate.TdxQuote -> [rtmr.ParseCcelWithTdQuote].  What is delivered must   *)
(* be what TdxGuestSystem delivers for the logged case.                                                               *)
EXTENDS TdxGuestSystem, Json
CONSTANTS TraceFile
Trace == ndJsonDeserialize(TraceFile)
VARIABLES l
tvars == <<vars, l>>
Mark(k) == TLCSet(42, IF TLCGet(42) > k THEN TLCGet(42) ELSE k)
IsEvent(ev) == l <= Len(Trace) /\ Trace[l].ev = ev /\ l' = l + 1
TInit == /\ dev = "good" /\ transit = "intact" /\ trust = "trusted" /\ lvl = 0 /\ collat = "ok" /\ pol = "met" /\ consumer = "direct" /\ logfit = "matches"
         /\ pc = "done" /\ delivered = "idle" /\ l = 1 /\ TLCSet(42, 1)
TCall == /\ IsEvent("Call") /\ pc = "done"
         /\ dev' = Trace[l].input.dev /\ transit' = Trace[l].input.transit /\ trust' = Trace[l].input.trust /\ lvl' = Trace[l].input.lvl
         /\ collat' = Trace[l].input.collat /\ pol' = Trace[l].input.pol /\ consumer' = Trace[l].input.consumer /\ logfit' = Trace[l].input.logfit
         /\ pc' = "guest" /\ delivered' = "none"
Silent == /\ l <= Len(Trace) /\ UNCHANGED l /\ Next
TReturn == /\ IsEvent("Return") /\ Done /\ delivered # "returned"
           /\ Trace[l].delivered = delivered
           /\ delivered' = "returned" /\ UNCHANGED <<dev, transit, trust, lvl, collat, pol, consumer, logfit, pc>>
TNext == (TCall \/ Silent \/ TReturn) /\ Mark(l')
TSpec == TInit /\ [][TNext]_tvars
TraceAccepted == PrintT(<<"HWM", TLCGet(42)>>) /\ TLCGet(42) = Len(Trace) + 1
=================================================================================
