--------------------------- MODULE VerifyIsolation_Trace ---------------------------
(* Recorded runs of many goroutines verifying at the same time, half of them the genuine quote, half of them a copy altered after  *)
(* signing (one run per altered region); every goroutine uses inputs and options of its own.  Each Return reports how many        *)
(* verdicts were not the verdict of the goroutine's own input: VerdictIsOwn of VerifyIsolation demands none.                       *)
EXTENDS Naturals, Sequences, TLC, Json
CONSTANTS TraceFile
Trace == ndJsonDeserialize(TraceFile)
VARIABLES l, st
Mark(k) == TLCSet(42, IF TLCGet(42) > k THEN TLCGet(42) ELSE k)
IsEvent(ev) == l <= Len(Trace) /\ Trace[l].ev = ev /\ l' = l + 1
TInit == l = 1 /\ st = "idle" /\ TLCSet(42, 1)
TCall == IsEvent("Call") /\ st = "idle" /\ st' = "running"
TReturn == /\ IsEvent("Return") /\ st = "running" /\ st' = "idle"
           /\ Trace[l].result = "ok"                                   \* no panic, no hang
           /\ Trace[l].tamperedAccepted = 0 /\ Trace[l].genuineRejected = 0
           /\ Trace[l].genuineRuns > 0 /\ Trace[l].tamperedRuns > 0     \* both kinds really ran, concurrently
TNext == (TCall \/ TReturn) /\ Mark(l')
TSpec == TInit /\ [][TNext]_<<l, st>>
TraceAccepted == PrintT(<<"HWM", TLCGet(42)>>) /\ TLCGet(42) = Len(Trace) + 1
=================================================================================
