----------------------------- MODULE VerifyHistory_MC -----------------------------
EXTENDS VerifyHistory, Json
HistPairsNone == {}
HistPairsRot == {<<"rotVia", "pool">>}      \* how the pool is configured x which roots it lists: the pool-ownership histories
ExportCase == (k = 1) => PrintT(<<"CASE", ToJson([fault |-> fault, shared |-> shared, mid |-> mid, hist |-> hist,
                                                  worlds |-> [T |-> Twin(fault), W |-> fault, B |-> WorldOf("B", fault)]])>>)
=================================================================================
