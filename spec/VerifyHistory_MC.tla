----------------------------- MODULE VerifyHistory_MC -----------------------------
EXTENDS VerifyHistory, Json
ExportCase == (k = 1) => PrintT(<<"CASE", ToJson([fault |-> fault, shared |-> shared, mid |-> mid, hist |-> hist,
                                                  worlds |-> [T |-> Twin(fault), W |-> fault, B |-> WorldOf("B", fault)]])>>)
=================================================================================
