------------------------------ MODULE AttestTool_MC ------------------------------
EXTENDS AttestTool, Json
ExportCase == (pc = "flags") => PrintT(<<"CASE", ToJson([in |-> in, inform |-> inform, outform |-> outform, out |-> out, flags |-> flags])>>)
=================================================================================
