------------------------------ MODULE AttestTool_MC ------------------------------
EXTENDS AttestTool, Json
ExportCase == (pc = "parse") => PrintT(<<"CASE", ToJson([in |-> in, inform |-> inform, outform |-> outform, out |-> out])>>)
=================================================================================
